#!/usr/bin/env python3
"""Regenerates /verif/MANIFEST.json from the table below (claimed = a harness module exists)."""
import glob
import json
import os

ROOT = os.path.dirname(os.path.dirname(os.path.abspath(__file__)))

E1 = ("bounded symbolic execution of the real Python code with CrossHair 0.0.110 (z3 back end): inputs are solver "
      "variables, every feasible path is followed, counterexamples are replayed on plain CPython")
NOTE = ("Bounded: document templates, map/range counts, alphabets and sequence lengths as listed in the evidence "
        "'bounds'; outside them nothing is claimed. Trusted: CPython 3.12, CrossHair's proxies and path-tree "
        "bookkeeping, z3 5.1, the reference models in engine/oracle (validated on the repository's own test data). "
        "Every counterexample is replayed on plain CPython; every obligation has a refuted vacuity twin.")

CHECKS = {
 "C08": dict(technique="CrossHair symbolic execution of transform/map.py (range ints, positions, assoc symbolic) + z3 QF_BVFP lemma for the float recover encoding",
             text="For every step map with up to 3 ranges of unbounded non-negative size, every position and both association sides the solver shows map/map_result/recover/touches/for_each/invert agree with an independent reference model, and that Mapping slice/copy/append*/invert and mirrored round trips equal left-to-right composition; a z3 floating-point lemma proves the float recover encoding exact below 2^52.",
             ref="4/C08"),

 "C09": dict(technique="CrossHair symbolic execution of resolvedpos.py/fragment.py/node.py position code (positions, depth argument, range ends symbolic) against a flat-token reference model",
             text="On every catalogue document (<= 25 tokens, depth <= 4, astral text, non-inclusive marks) the solver explores every path of resolve and all derived accessors, node_at, child_before/after, nodes_between, text_between, range_has_mark, shared_depth, block_range, marks, marks_across, find_index for every position / position pair (out-of-range positions must raise) and each path's result is compared with the value read off the token list.",
             ref="4/C09"),
 "C20": dict(technique="CrossHair symbolic execution of model/diff.py under a deterministic sys.monitoring step budget (edit choice, compared texts over an astral alphabet, start offsets symbolic) against typed-token prefix/suffix reference",
             text="For every (before, after) pair obtained from a catalogue document by one edit at any node - sharing untouched sub-trees by identity, independently rebuilt, or swapped - the solver explores every path of find_diff_start/find_diff_end with symbolic compared texts (incl. surrogate pairs sharing a high surrogate) and symbolic start offsets; termination is an assertion (step budget) and results equal the longest common prefix/suffix of the typed token sequences.",
             ref="4/C20"),
 "C14": dict(technique="CrossHair symbolic execution of model/mark.py and the mark parts of model/schema.py with a lazily-symbolic exclusion relation (solver booleans decided when excludes() consults them), symbolic attribute ints, membership and permission bits",
             text="For an arbitrary exclusion relation over 3 (thorough 4) mark types chosen by the solver along each path, every canonical set of the mark instances and every added/removed mark, add_to_set/remove_from_set/is_in_set/same_set/set_from/allowed_marks/allows_marks equal the reference mark-set algebra and results stay canonical; sequences of three additions and a removal from the empty set are followed step by step; the compilation of excludes/marks spec strings ('_', '', absent, names, groups) by Schema() yields exactly the denoted relation.",
             ref="4/C14"),
 "C02": dict(technique="CrossHair symbolic execution of Node.slice/cut/replace (model/replace.py, fragment.py) with both positions and the slice choice / a second document's cut positions symbolic, against the token-splice reference",
             text="For every catalogue document and every position pair the solver explores every path of slice/cut (out-of-range must raise) and of replace with every catalogue slice (closed, open, deep, astral) and with slices cut at two symbolic positions of a second document; a returned document has exactly the tokens old[:from]+slice+old[to:], the predicted size, merged text, and is valid under the spec-derived validator; re-inserting a cut slice must succeed and give an equal document; anything but ReplaceError is a violation.",
             ref="4/C02"),
 "C06": dict(technique="direct z3: compiled ContentMatch automaton (read through the public API, unrolled L times over a z3 string) vs an independently parsed z3 regular expression; dead-end rejection predicted by a z3 query; CrossHair ties match_fragment/match_type to the table",
             text="For every content expression up to syntax-tree size 3 (thorough 4) over three alphabets (plain, grouped, inline with non-generatable types), seeded larger ones and the repository's own, z3 finds no child sequence up to length L = n_M + n_R (cap 12) on which complete-content acceptance or alive-prefix status of the compiled matcher differs from the expression read as a regular expression, and Schema() rejects exactly the expressions with a required position only non-generatable nodes can fill; malformed expressions are rejected (concrete enumeration, reported separately).",
             ref="4/C06",
             note="Bounded by L per expression (evidence: expressions_with_full_bound counts those where L reached n_M+n_R, which extends the verdict to all lengths if the position automaton is right). Trusted: z3 5.1 sequence/regex theory, the reference parser engine/oracle/cexpr.py, extraction through edge_count/edge/valid_end. Witnesses are replayed on plain CPython against Python's re."),
 "C15": dict(technique="direct z3: existence queries over the reference regular expressions (fillers u in Gen*, wrapper chains as finite-domain SMT) against the answers of the real fill_before / find_wrapping / create_and_fill",
             text="For every enumerated expression, every automaton state, following sequence (<= 2), start index and to_end, a returned filler is generatable and really completes the match (z3 membership), and a None answer is confirmed by an unsat existence query; for 3-type nested schemas and the catalogue schemas every returned wrapper chain satisfies the five clauses and z3 shows no shorter chain (or no chain at all when None is returned).",
             ref="4/C15",
             note="Bounded: expressions/schemas enumerated as listed in evidence bounds; fillers up to n_states+1. Trusted: z3 5.1, reference parser, automaton extraction. Witnesses replayed on plain CPython with Python's re and brute force."),
 "C01": dict(technique="CrossHair symbolic execution of the eight step classes' apply() with all integer fields symbolic and payloads a symbolic catalogue index; outcome judged by a validator derived from the spec dictionaries",
             text="On every catalogue document, for ReplaceStep, ReplaceAroundStep (gap or outer positions symbolic), Add/RemoveMarkStep, Add/RemoveNodeMarkStep, AttrStep and DocAttrStep with every in-range ordered combination of positions and every catalogue payload, each path ends in a failed result, a ValueError-family exception or a document the independent validator accepts (content expressions, allowed marks, canonical mark sets, attrs); thorough also decodes each step from its JSON first.",
             ref="4/C01"),
 "C11": dict(technique="CrossHair symbolic execution of Transform.replace/replace_with/insert/delete/replace_range/replace_range_with/delete_range (Fitter, covered_depths, close_fragment, insert_point) with symbolic range ends and payload index / second-document cut positions; spec-derived validator and token-level content-preservation oracle",
             text="For every catalogue document of the bundled, list, strict, title, fixed, isolating and table schemas, every in-range ordered range and every catalogue slice/node (thorough: also slices cut at two symbolic positions from a second document) each path of the seven replace-family operations ends without any exception, with a valid document, the text/leaf sequence before and after the range intact and the content in between an in-order subsequence of the inserted content (empty for deletes).",
             ref="4/C11"),
 "C18": dict(technique="CrossHair symbolic execution of the replace-family operations with both range ends symbolic inside each isolating node, of lift_target/can_split with symbolic positions and depth, and of Slice.max_open; token-level framing oracle",
             text="For every isolating node of the iso and table templates and every range inside it (incl. its whole content) each replace-family operation with every catalogue payload leaves the tokens before the node's opening and after its closing and the node itself in place (strict form in the iso schema and for the delete family everywhere; for the table-like schema the fitter's documented escape/split mode is an open known finding); lift_target and can_split never cross an isolating ancestor; max_open(open_isolating) counts exactly the non-isolating spine.",
             ref="4/C18"),
 "C12": dict(technique="CrossHair symbolic execution of transform/structure.py helpers and the Transform methods they guard (positions, depth, direction, type and slice index symbolic); spec-derived validator and leaf-sequence oracle",
             text="On every catalogue document, for every position / block range / depth / wrapper type / node type / slice, no helper raises, results are in range, and whenever can_split, can_join, join_point, lift_target, find_wrapping, insert_point or drop_point approves, performing the edit records a step and yields a valid document; split, join, lift and wrap keep the text/leaf sequence exactly; a node inserted at insert_point sits exactly there.",
             ref="4/C12"),
 "C13": dict(technique="CrossHair symbolic execution of Transform.add_mark/remove_mark/add_node_mark/remove_node_mark/set_node_attribute/set_block_type/set_node_markup (range ends, position, mark/type index, attribute value symbolic); token-wise comparison with the reference mark algebra over the spec-derived exclusion relation",
             text="On documents of the list/docmarks schemas and six mark-exclusion schemas, for every range, mark, mark type and textblock type each path leaves structure tokens and everything outside the range identical, gives every inline token inside the range whose parent allows the type exactly ref_add(old, mark) (resp. the set minus the removed mark/type/all), changes only the addressed token for node-level edits, and keeps the text/leaf sequence under set_block_type/set_node_markup up to children the new type cannot hold and newline replacement.",
             ref="4/C13"),
 "C05": dict(technique="CrossHair symbolic execution of to_json/from_json of Node, Fragment, Slice, Mark and the eight step classes (attribute values, open depths and all step integer fields symbolic); real json.dumps/loads on concrete self-test inputs",
             text="With unbounded symbolic ints, a symbolic short string, None and one level of list/dict nesting as attribute values, symbolic open depths and every integer field of every step symbolic, decoding the JSON form gives an equal object that re-serialises identically, the JSON is plain data that does not alias live attribute values, decoded steps have the same effect and map on catalogue documents (positions bounded), and the registry holds exactly the eight published names; a fixed set of concrete inputs additionally passes through the real json encoder/decoder.",
             ref="4/C05"),
 "C19": dict(technique="CrossHair symbolic execution of the pure-Python half only: DOMSerializer (to_dom.py) with symbolic characters/attribute values/mark bits against a reference serialiser, and ParseContext.matches_context (from_dom.py) with a symbolic ancestor stack under the step budget; the lxml-bound import half is not applicable",
             text="RESTRICTED CLAIM. Export: for documents of the list schema whose text and attribute strings are built from symbolic characters of {a < & \" ' > space}, symbolic heading level / list start and symbolic mark bits, serialisation never raises and the output equals a reference serialiser (escaping of & < > quotes in text and attribute values, marks re-opened in order). Context expressions: for 12 expressions and every ancestor stack up to depth 3 (thorough 4) matches_context terminates (step budget) and agrees with an independent matcher of the documented grammar. NOT claimed: totality/validity of parsing, list normalisation, whitespace handling, pending marks, export-then-import identity (see not_applicable).",
             ref="5/C19",
             note="Only the pure-Python export and context-matching code is symbolically reachable; everything operating on lxml elements realises its input at the C boundary and is declared not applicable rather than checked by another technique."),
 "C07": dict(technique="CrossHair symbolic execution of Node.can_replace/can_replace_with/can_append/check, NodeType.valid_content/create_checked, Schema.node (child indices, fragment sub-range, type index, mark bits, mutation choice symbolic) against the validator derived from the spec dictionaries",
             text="For every non-leaf node of every catalogue document as parent, every catalogue fragment and sub-range, every index range, candidate type and mark subset, each predicate answers true exactly when the resulting child sequence matches the parent's content expression (own regex translation) and the parent allows the inserted marks; check() raises exactly on the single-mutation variants the validator rejects (content, forbidden marks, non-canonical mark sets); the checked constructors fail exactly when valid_content is false.",
             ref="4/C07"),
 "C03": dict(technique="CrossHair symbolic execution of get_map of the eight step classes and of every step emitted by one symbolic high-level Transform operation; the map's ranges are compared with the token-level change",
             text="For primitive steps with symbolic fields and for every step recorded by each of 21 Transform operations with symbolic arguments on catalogue documents, the size changes by the sum of (new - old) over the map's ranges, every old token outside the replaced ranges is found unchanged at the mapped index (map-less mark/attr steps: same kind, unit and type), and the real map() sends that index there.",
             ref="4/C03"),
 "C04": dict(technique="CrossHair symbolic execution of one (and two chained) Transform operations after a fixed prefix - inductive step over histories - plus invert() of primitive steps; alignment invariant and exact undo asserted on every path, also after a rejected operation",
             text="From a Transform that already holds three steps, each of 21 operation kinds with symbolic arguments (and pairs of chained operations) leaves steps/docs/maps aligned and the old entries untouched, every recorded step re-applied to its recorded document gives the next one, inverting the new steps in reverse restores the pre-document exactly and each inverted step maps like the inverted map; primitive replace/attr/doc-attr/node-mark steps undo exactly under the catalogue schemas. Histories of arbitrary length follow by the (unmechanised) induction argument stated in the evidence assumptions.",
             ref="4/C04"),
 "C10": dict(technique="CrossHair symbolic execution of one library operation (21 Transform kinds, 24 model/step/mapping/serialisation operations) with symbolic arguments between two JSON snapshots of the live set - inductive step over operation sequences",
             text="With a template document, the slice/node/mark catalogues, a step and its map, a mapping, the first entries of a Transform and the shared singletons (Fragment.empty, Mark.none, Slice.empty, StepMap.empty) live, every path of every operation leaves all of them serialising to the same JSON (identity of recorded entries included); only the Transform being edited grows, by appending; mutating returned JSON never reaches a live object.",
             ref="4/C10"),
 "C16": dict(technique="CrossHair symbolic execution of ReplaceStep.merge / AddMarkStep.merge / RemoveMarkStep.merge and the apply methods with the four positions symbolic (merge conditions are equalities the solver satisfies) and slice/mark catalogue indices symbolic",
             text="For every catalogue document, every pair of adjacent replace steps (closed and open slices) and every pair of overlapping same-mark add/remove-mark steps where step 1 applies and step 2 applies to its result, a returned merged step applies to the original document, gives a document equal to the two-step result and changes the size by the same amount; merge never raises and returns None for non-adjacent, structure or foreign steps.",
             ref="4/C16"),
 "C17": dict(technique="CrossHair symbolic execution of Step.map / MapResult flags / get_map / apply for a pair (X from a concrete sample of emitted single steps via a symbolic index, Y = the step of one Transform operation with symbolic arguments) under a symbolic separation precondition",
             text="For templates of the list/strict/iso schemas, every sampled single step X and every step Y emitted by an operation with symbolic arguments whose touched extents are separated by at least one token, rebasing each over the other's map drops neither, both orders apply, and the two resulting documents are equal.",
             ref="4/C17"),
}
CHECKS_END = None

NA_REASON = "check not built yet in this round (planned in DESIGN.md section 4); nothing is claimed"


def main():
    props = [json.loads(l) for l in open(os.path.join(ROOT, "properties.jsonl"))]
    checks, na = [], []
    for p in props:
        pid = p["id"]
        has = glob.glob(os.path.join(ROOT, "harness", pid.lower() + "_*.py"))
        if has and pid in CHECKS:
            c = CHECKS[pid]
            checks.append({
                "property_id": pid,
                "quick_cmd": "./check %s --tier quick" % pid,
                "thorough_cmd": "./check %s --tier thorough" % pid,
                "evidence_file": "/verif/evidence/%s.json" % pid,
                "replay_cmd_template": "./check %s --replay {path}" % pid,
                "engine": "crosshair+z3",
                "level_claimed": {"category": "model_checking", "text": c["text"], "design_ref": "DESIGN.md section " + c["ref"]},
                "level_note": c.get("note", NOTE),
                "technique": c["technique"],
            })
        else:
            na.append({"property_id": pid, "reason": CHECKS.get(pid, {}).get("na", NA_REASON)})
    extra_na = json.load(open(os.path.join(ROOT, "tools", "partial_na.json"))) if os.path.exists(os.path.join(ROOT, "tools", "partial_na.json")) else []
    man = {
        "version": 1,
        "setup_cmd": "./setup.sh",
        "hooks": {
            "guard": "PROSEMIRROR_PY_VERIF",
            "enable": "no hooks: /repo is imported unmodified (sys.path /repo); the step budget attaches from outside through sys.monitoring",
            "baseline_off_cmd": "cd /repo && /venv/bin/python -m pytest -ra -q -p no:cacheprovider --timeout=900 --continue-on-collection-errors",
            "source_commits": [],
            "add_only": True,
        },
        "engines": [
            {"name": "E1 CrossHair driver", "path": "engine/driver.py", "serves_properties": [c["property_id"] for c in checks if c["property_id"] not in ("C06", "C15")] + ["C06"],
             "kind_free_text": E1 + "; harness functions in harness/cXX_*.py; obligations are partitions run as separate processes; vacuity twin per obligation; step budget via sys.monitoring (engine/stepbudget.py)"},
            {"name": "E2a/E2b z3 regular-expression encodings", "path": "engine/smt_regex.py", "serves_properties": ["C06", "C15"],
             "kind_free_text": "compiled ContentMatch automata read through the public API and unrolled over a z3 string vs an independently parsed z3 regular expression; existence queries for fillers and wrapper chains; built from /repo's current source on every run"},
            {"name": "E2c floating-point lemma", "path": "engine/fp_lemma.py", "serves_properties": ["C08"],
             "kind_free_text": "AST of make_recover/recover_index/recover_offset in /repo's map.py translated to QF_BVFP terms; z3 shows them equal to the integer models used during symbolic runs"},
        ],
        "checks": checks,
        "notes": "Solver-based checking of the real code (CrossHair 0.0.110 + z3 5.1; direct z3 encodings for C06/C15/C08-lemma). DESIGN.md sections 10-11 (11.3/11.4: defect-hunting triage) describe the system as built. known_findings.json: 30 fix: commits in /repo recorded as fixed entries (their counterexamples are replayed on every run) and open findings (C18 fitter escape in table-like schemas, C12 drop_point in the strict schema and lift_target on nested lists, C08 mirror round trip on adjacent ranges, C11 open slice missing leading content, C11 positions inside a surrogate pair, C04 node-mark eviction and markup-to-leaf undo, C14 same_set order, C08 deleted_after on insertions, C03 empty-gap replace-around map). seeded/ holds 59 confirmed breaking changes (one of them superseded by a later fix) written by sub-agents, all caught by the current checks (tools/try_seeded.sh). Verdicts are bounded: see each evidence file's bounds and assumptions.",
        "not_applicable": na + extra_na,
    }
    json.dump(man, open(os.path.join(ROOT, "MANIFEST.json"), "w"), indent=1)
    print("claimed:", [c["property_id"] for c in checks])


if __name__ == "__main__":
    main()
