#!/bin/sh
# tools/recheck_seeded.sh <seed dir names...>   - runs the full quick check of each seed's property against the seeded
# tree (tools/try_seeded.sh) and prints one line per seed: CAUGHT / MISSED.
cd /verif
for d in "$@"; do
  id=$(echo "$d" | sed 's/-.*//')
  out=$(tools/try_seeded.sh seeded/$d $id 2>&1 | grep -v "^WARNING")
  nv=$(echo "$out" | grep -c "^VIOLATION")
  sum=$(echo "$out" | grep "tier=" | tail -1 | cut -c1-150)
  if [ "$nv" -gt 0 ]; then echo "CAUGHT $d ($nv) $sum"; else echo "MISSED $d $sum"; fi
done
