#!/usr/bin/env python3
"""One-off generator (run by hand, never by a check): brute-forces the C18 edit obligations concretely on the
current tree and prints known-finding entries for the inputs on which content escapes / splits an isolating
node.  Its output was reviewed and pasted into known_findings.json."""
import json
import sys

sys.path.insert(0, "/verif")
import engine  # noqa: F401,E402
from engine import rt  # noqa: E402
from harness import c18_isolating as H  # noqa: E402

out = []
seen = set()
for tier in ("thorough",):
    for ob in H.obligations(tier, 0):
        if ob["fn"] != "ob_edit":
            continue
        P = {k: v for k, v in ob["P"].items() if k != "xs"}
        key = json.dumps(P, sort_keys=True)
        if key in seen:
            continue
        seen.add(key)
        H.configure(P)
        o, c = P["iso"]
        bad = []
        nx = H.ops.xrange_of(H.C, P["kind"])
        for a in range(o + 1, c + 1):
            for b in range(a, c + 1):
                for x in range(nx):
                    rt.reset()
                    if not H.ob_edit(a, b, x):
                        bad.append((a, b, x, rt.CE[-1]["why"] or rt.CE[-1]["exc"]))
        if bad:
            whys = sorted({w.split(":")[0][:60] for (_a, _b, _x, w) in bad})
            out.append({"property": "C18", "status": "open", "fn": "ob_edit", "P": P,
                        "match": "(a, b, x) in %r" % ([(a, b, x) for (a, b, x, _w) in bad],),
                        "what": "Transform.%s inside the isolating node at token %d of %s#%d: content that does not fit there is "
                                "placed outside the node or the node is split (%d inputs; Fitter closes frontier nodes without "
                                "regard to isolating, as upstream does): %s" % (P["kind"], o, P["schema"], P["doc"], len(bad), "; ".join(whys))})
json.dump(out, sys.stdout, indent=1)
print(file=sys.stderr)
print(len(out), "entries", sum(e["match"].count("(") - 1 for e in out), "inputs", file=sys.stderr)
