#!/bin/sh
# tools/run_all.sh [quick|thorough]  - runs every registered check of that tier in /verif against /repo, one after the
# other (each uses all cores), writes evidence/<id>.json and prints one summary line per property.
cd /verif
TIER=${1:-quick}
RC=0
for i in 01 02 03 04 05 06 07 08 09 10 11 12 13 14 15 16 17 18 19 20; do
  out=$(./check C$i --tier $TIER 2>&1); rc=$?
  echo "$out" | grep "^VIOLATION\|^HARNESS-ERROR\|^INCONCLUSIVE" | cut -c1-200
  echo "C$i rc=$rc $(echo "$out" | grep 'tier=' | tail -1)"
  [ $rc -ne 0 ] && RC=1
done
exit $RC
