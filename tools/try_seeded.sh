#!/bin/sh
# tools/try_seeded.sh <dir with patch.diff> <CHECK-ID> [extra ./check args]
# Applies the patch to a scratch worktree of /repo's HEAD (never to /repo itself), runs the check against it
# through VERIF_REPO, removes the worktree.  exit status = the check's.
set -e
D="$1"; ID="$2"; shift 2
WT=$(mktemp -d /tmp/seedtry.XXXXXX)
git -C /repo worktree add -q -f "$WT" HEAD
trap 'git -C /repo worktree remove --force "$WT" 2>/dev/null' EXIT
case "$D" in /*) ;; *) D="$(pwd)/$D";; esac
git -C "$WT" apply "$D/patch.diff"
cd /verif
set +e
VERIF_REPO="$WT" ./check "$ID" --no-evidence "$@"
RC=$?
exit $RC
