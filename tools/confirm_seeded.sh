#!/bin/sh
# tools/confirm_seeded.sh <dir with patch.diff and demo.py>
# Confirms independently, in a scratch worktree of /repo's HEAD: the existing tests pass with the change,
# the demonstration fails with it and passes without it.
D="$1"
WT=$(mktemp -d /tmp/seedconf.XXXXXX)
git -C /repo worktree add -q -f "$WT" HEAD || exit 9
cd "$WT"
/venv/bin/python "$D/demo.py" >/dev/null 2>&1; R0=$?
git apply "$D/patch.diff" || { echo "patch does not apply"; git -C /repo worktree remove --force "$WT"; exit 9; }
T=$(PYTHONPATH="$WT" /venv/bin/python -m pytest -q -p no:cacheprovider 2>&1 | tail -1)
/venv/bin/python "$D/demo.py" >/tmp/seedconf.out 2>&1; R1=$?
cd /
git -C /repo worktree remove --force "$WT"
echo "demo unpatched exit=$R0 (want 0); demo patched exit=$R1 (want 1); tests with change: $T"
[ "$R0" = 0 ] && [ "$R1" = 1 ] && echo "$T" | grep -q "442 passed" && echo CONFIRMED || echo NOT-CONFIRMED
