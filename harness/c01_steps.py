"""C01 - applying a step never yields a schema-invalid document.

Engine E1: the eight step classes' apply() (and the model code below them) run with their integer
fields as solver variables on each catalogue document; payloads (slice, mark, attribute value) are a
symbolic index into the schema's catalogue.  Outcome must be: failed result, ValueError-family
exception, or a document the spec-derived validator accepts; the same must hold for the step decoded
from its own JSON.
"""
from engine import rt
from engine.oracle.tokens import splits_surrogate
from engine.oracle.valid import why_invalid
from harness import common, ops
from prosemirror.transform.doc_attr_step import DocAttrStep
from prosemirror.transform import (AddMarkStep, AddNodeMarkStep, AttrStep, RemoveMarkStep,
                                   RemoveNodeMarkStep, ReplaceAroundStep, ReplaceStep, Step)

PROPERTY = "C01"
BOUNDS = ("catalogue documents and payload catalogues (slices closed/open/deep/astral, wrapper slices with a hole for "
          "replace-around, every mark of the schema incl. two attribute variants, attribute values 2/'v'/None); "
          "all integer fields symbolic and in range, ordered as the step documents; replace-around: either (from,to,"
          "insert) symbolic with the gap from the partition, or the gap symbolic with from/to the enclosing positions")
ASSUMPTIONS = ["positions outside the document or out of order are outside the quantifier",
               "positions that split a surrogate pair are excluded"]

P = {}
C = None


def configure(p):
    global C
    P.clear()
    P.update(p)
    C = ops.payloads(common.load(p))


def outcome_ok(step, doc):
    """(ok, why) for one application of `step` and of its JSON round trip."""
    for variant in (("direct", "json") if P.get("json") else ("direct",)):
        s = step if variant == "direct" else Step.from_json(C.schema, step.to_json())
        try:
            res = s.apply(doc)
        except ValueError:
            continue                      # ReplaceError, TransformError, UnicodeDecodeError ... : reported failure
        if res.failed is not None:
            if res.doc is not None:
                return False, "failed result carries a document"
            continue
        if res.doc is None:
            return False, "neither failed nor a document"
        w = why_invalid(res.doc, C.V)
        if w:
            return False, "%s apply returned an invalid document: %s" % (variant, w)
    return True, None


def chunk_ok(a):
    return P.get("alo", 0) <= a < P.get("ahi", 10 ** 9)


def ob_replace(a: int, b: int, si: int, structure: bool) -> bool:
    """post: _"""
    return rt.run(_replace, a, b, si, structure)


def _replace(a, b, si, structure):
    if not (0 <= a <= b <= C.size and 0 <= si < len(C.slices)) or not chunk_ok(a):
        return rt.SKIP
    if C.is_split(a) or C.is_split(b):
        return rt.SKIP
    si = rt.pick(si, 0, len(C.slices) - 1)
    if "slices" in P and si not in P["slices"]:
        return rt.SKIP
    ok, why = outcome_ok(ReplaceStep(a, b, C.slices[si], structure), C.doc)
    return rt.fin(ok, why)


def admissible(frag, base, p, open_l, open_r):
    """Every node of the slice that is closed inside it and does not contain the insertion point p
    is valid on its own (the payload is schema-valid apart from the hole the gap fills)."""
    off = base
    kids = frag.content
    for i, c in enumerate(kids):
        size = c.node_size
        if not c.is_text and not c.is_leaf:
            left_open = i == 0 and open_l > 0
            right_open = i == len(kids) - 1 and open_r > 0
            contains = off + 1 <= p <= off + size - 1
            if not contains and not left_open and not right_open:
                if why_invalid(c, C.V) is not None:
                    return False
            elif not admissible(c.content, off + 1, p, open_l - 1 if left_open else 0, open_r - 1 if right_open else 0):
                return False
        off += size
    return True


def ob_around(a: int, b: int, ga: int, gb: int, ri: int, ins: int, structure: bool) -> bool:
    """post: _"""
    return rt.run(_around, a, b, ga, gb, ri, ins, structure)


def _around(a, b, ga, gb, ri, ins, structure):
    if not (0 <= a <= ga <= gb <= b <= C.size and 0 <= ri < len(C.ras)):
        return rt.SKIP
    for x in (a, b, ga, gb):
        if C.is_split(x):
            return rt.SKIP
    mode = P["mode"]
    if mode == "gapfixed":
        if ga != P["ga"] or gb != P["gb"]:
            return rt.SKIP
    else:   # gap symbolic; from/to fixed by the partition
        if a != P["a"] or b != P["b"]:
            return rt.SKIP
    ri = rt.pick(ri, 0, len(C.ras) - 1)
    if "ras" in P and ri not in P["ras"]:
        return rt.SKIP
    sl, natural = C.ras[ri]
    if not (0 <= ins <= sl.size):
        return rt.SKIP
    ins = rt.pick(ins, 0, sl.size)
    with rt.untraced():
        adm = admissible(sl.content, 0, sl.open_start + ins, sl.open_start, sl.open_end)
    if not adm:
        return rt.SKIP
    ok, why = outcome_ok(ReplaceAroundStep(a, b, ga, gb, sl, ins, structure), C.doc)
    return rt.fin(ok, why)


def ob_mark(a: int, b: int, mi: int, remove: bool) -> bool:
    """post: _"""
    return rt.run(_mark, a, b, mi, remove)


def _mark(a, b, mi, remove):
    if not C.marks or not (0 <= a <= b <= C.size and 0 <= mi < len(C.marks)) or not chunk_ok(a):
        return rt.SKIP
    if C.is_split(a) or C.is_split(b):
        return rt.SKIP
    mi = rt.pick(mi, 0, len(C.marks) - 1)
    if "marks" in P and mi not in P["marks"]:
        return rt.SKIP
    step = (RemoveMarkStep if remove else AddMarkStep)(a, b, C.marks[mi])
    ok, why = outcome_ok(step, C.doc)
    return rt.fin(ok, why)


def ob_node(pos: int, mi: int, kind: int, vi: int) -> bool:
    """post: _"""
    return rt.run(_node, pos, mi, kind, vi)


def _node(pos, mi, kind, vi):
    """kind 0 add node mark, 1 remove node mark, 2 attr step (declared and undeclared names), 3 doc attr."""
    if not (0 <= pos <= C.size and 0 <= kind < 4 and 0 <= vi < 3):
        return rt.SKIP
    nm = max(1, len(C.marks))
    if not (0 <= mi < nm):
        return rt.SKIP
    kind = rt.pick(kind, 0, 3)
    mi = rt.pick(mi, 0, nm - 1)
    vi = rt.pick(vi, 0, 2)
    val = [2, "v", None][vi]
    if kind in (0, 1):
        if not C.marks:
            return rt.SKIP
        step = (AddNodeMarkStep if kind == 0 else RemoveNodeMarkStep)(pos, C.marks[mi])
    elif kind == 2:
        names = ["level", "order", "src", "meta", "zz"]
        step = AttrStep(pos, names[mi % len(names)], val)
    else:
        if pos != 0:
            return rt.SKIP
        step = DocAttrStep(["meta", "zz"][mi % 2], val)
    ok, why = outcome_ok(step, C.doc)
    return rt.fin(ok, why)


QUICK = [("list", 1), ("list", 7), ("mx4", 1), ("mx5", 2), ("strict", 0), ("iso", 1), ("docmarks", 0)]
THOROUGH_AROUND = {("list", 1): 4, ("list", 4): 3, ("strict", 0): 3, ("iso", 1): 3, ("docmarks", 0): 2, ("table", 0): 3, ("fixed", 0): 2, ("title", 0): 2}
QUICK_AROUND = {("list", 1): 3, ("strict", 0): 1, ("iso", 1): 1, ("docmarks", 0): 2}


def obligations(tier, seed):
    obs = []
    T = 150 if tier == "quick" else 900
    if tier == "quick":
        parts = [{"schema": s, "doc": i} for (s, i) in QUICK]
    else:
        parts = [{"schema": s, "doc": i} for (s, i) in QUICK + [("list", 4), ("list", 11), ("table", 0), ("fixed", 0), ("title", 0),
                                                                  ("basic", 1), ("docmarks", 1), ("mx1", 1), ("mx2", 3), ("mx3", 1), ("mx6", 3), ("ni", 0)]]
    for p in parts:
        tag = "%s#%d" % (p["schema"], p["doc"])
        size = common.templates.doc(p["schema"], p["doc"]).content.size
        step = 4 if tier == "quick" else 3
        if tier == "quick":
            p = dict(p, slices=[0, 2, 5, 7, 12, 13, common.templates.nslices(p["schema"])], marks=[0, 1, 2, 5], ras=[0, 1, 2, 5, 9, 10, 12])
        else:
            p = dict(p, json=True)
        if not p["schema"].startswith("mx"):
            for lo in range(0, size + 1, step):
                obs.append({"name": "replace/%s/%d" % (tag, lo), "fn": "ob_replace", "P": dict(p, alo=lo, ahi=lo + step), "timeout": T})
        for lo in range(0, size + 1, step):
            obs.append({"name": "mark/%s/%d" % (tag, lo), "fn": "ob_mark", "P": dict(p, alo=lo, ahi=lo + step), "timeout": T})
        obs.append({"name": "node/%s" % tag, "fn": "ob_node", "P": p, "timeout": T})
        if p["schema"].startswith("mx"):
            continue
        # replace-around: gaps = every node's content span and every flat child range of small documents
        C_ = common.load(p)
        spans = []
        for i, t in enumerate(C_.tok):
            if t[0] == "open":
                spans.append((i, C_.pm.match[i] + 1))
        spans = spans[: (QUICK_AROUND.get((p["schema"], p["doc"]), 0) if tier == "quick" else
                         THOROUGH_AROUND.get((p["schema"], p["doc"]), 0))]
        if spans:
            for ri in [r for r in p.get("ras", list(range(20))) if r < len(ops.payloads(C_).ras)][: (3 if tier == "quick" else 20)]:
                obs.append({"name": "around/%s/outer=doc/r%d" % (tag, ri), "fn": "ob_around",
                            "P": dict(p, mode="outerfixed", a=0, b=size, ras=[ri]), "timeout": T})
        nras = len(ops.payloads(C_).ras)
        rlist = p.get("ras", list(range(nras)))
        for (o, c) in spans:
            for ri in rlist:
                if ri >= nras:
                    continue
                obs.append({"name": "around/%s/gap=%d-%d/r%d" % (tag, o + 1, c - 1, ri), "fn": "ob_around",
                            "P": dict(p, mode="gapfixed", ga=o + 1, gb=c - 1, ras=[ri]), "timeout": T})
                obs.append({"name": "around/%s/outer=%d-%d/r%d" % (tag, o, c, ri), "fn": "ob_around",
                            "P": dict(p, mode="outerfixed", a=o, b=c, ras=[ri]), "timeout": T})
    return obs
