"""C16 - a merged step is equivalent to the two steps it replaces.

Engine E1: ReplaceStep.merge / AddMarkStep.merge / RemoveMarkStep.merge with the four positions symbolic and the
two slices (or the mark) a symbolic catalogue index.  The merge conditions are equalities between symbolic
integers (from1 + size1 == from2, to2 == from1, overlapping mark ranges): the solver finds the adjacent pairs.
"""
from engine import rt
from harness import common, ops
from prosemirror.transform import AddMarkStep, RemoveMarkStep, ReplaceStep

PROPERTY = "C16"
BOUNDS = ("catalogue documents of the list/strict/iso/table/basic schemas; four positions symbolic (step 2 in range of "
          "the intermediate document); closed and open catalogue slices; every mark")
ASSUMPTIONS = ["only pairs where step 1 applies to the template and step 2 to the result are in the quantifier"]

P = {}
C = None


def configure(p):
    global C
    P.clear()
    P.update(p)
    C = ops.payloads(common.load(p))


def applies(step, doc):
    try:
        r = step.apply(doc)
    except ValueError:
        return None
    return r.doc if r.failed is None else None


def judge(s1, s2, doc):
    d1 = applies(s1, doc)
    if d1 is None:
        return None, "skip"
    d2 = applies(s2, d1)
    if d2 is None:
        return None, "skip"
    m = s1.merge(s2)                    # must not raise
    if m is None:
        return True, None
    dm = applies(m, doc)
    if dm is None:
        return False, "merged step does not apply where the two steps do"
    if not dm.eq(d2):
        return False, "merged step gives %s, the two steps give %s" % (dm, d2)
    r = m.get_map().ranges
    delta = sum(r[i + 2] - r[i + 1] for i in range(0, len(r), 3))
    if delta != d2.content.size - doc.content.size:
        return False, "merged step's map changes the size by %d, the two steps by %d" % (delta, d2.content.size - doc.content.size)
    return True, None


def ob_replace(a1: int, b1: int, a2: int, b2: int, s1: int, s2: int) -> bool:
    """post: _"""
    return rt.run(_replace, a1, b1, a2, b2, s1, s2)


def _replace(a1, b1, a2, b2, s1, s2):
    ns = len(C.slices)
    if not (0 <= a1 <= b1 <= C.size and 0 <= a2 <= b2 and 0 <= s1 < ns and 0 <= s2 < ns):
        return rt.SKIP
    if "a1" in P and a1 != P["a1"]:
        return rt.SKIP
    s1, s2 = rt.pick(s1, 0, ns - 1), rt.pick(s2, 0, ns - 1)
    if "ss" in P and (s1 not in P["ss"] or s2 not in P["ss"]):  # indices beyond the catalogue never occur
        return rt.SKIP
    sl1, sl2 = C.slices[s1], C.slices[s2]
    if b2 > C.size + sl1.size:
        return rt.SKIP
    if C.is_split(a1) or C.is_split(b1):
        return rt.SKIP
    # only adjacent pairs can merge; everything else is dismissed by the real code in one comparison,
    # but the intermediate documents would still be computed: restrict to the merging region symbolically
    if not (a1 + sl1.size == a2 or b2 == a1):
        return rt.SKIP
    ok, why = judge(ReplaceStep(a1, b1, sl1), ReplaceStep(a2, b2, sl2), C.doc)
    if why == "skip":
        return rt.SKIP
    return rt.fin(ok, why)


def ob_nonadjacent(a1: int, b1: int, a2: int, b2: int) -> bool:
    """post: _"""
    return rt.run(_nonadjacent, a1, b1, a2, b2)


def _nonadjacent(a1, b1, a2, b2):
    """Replace steps that are not adjacent, or are structure steps, never merge (merge returns None, no exception)."""
    sl = C.slices[0]
    if not (0 <= a1 <= b1 and 0 <= a2 <= b2):
        return rt.SKIP
    m1 = ReplaceStep(a1, b1, sl).merge(ReplaceStep(a2, b2, sl))
    m2 = ReplaceStep(a1, b1, sl, True).merge(ReplaceStep(a2, b2, sl))
    m3 = ReplaceStep(a1, b1, sl).merge(AddMarkStep(a2, b2, C.marks[0])) if C.marks else None
    adjacent = (a1 + sl.size == a2) or (b2 == a1)
    ok = m2 is None and m3 is None and (adjacent or m1 is None)
    if C.marks and len(C.marks) > 1:
        overlap = a1 <= b2 and b1 >= a2
        m4 = AddMarkStep(a1, b1, C.marks[0]).merge(AddMarkStep(a2, b2, C.marks[0]))
        m5 = AddMarkStep(a1, b1, C.marks[0]).merge(AddMarkStep(a2, b2, C.marks[1]))
        m6 = AddMarkStep(a1, b1, C.marks[0]).merge(RemoveMarkStep(a2, b2, C.marks[0]))
        m7 = RemoveMarkStep(a1, b1, C.marks[0]).merge(RemoveMarkStep(a2, b2, C.marks[1]))
        m8 = RemoveMarkStep(a1, b1, C.marks[0]).merge(RemoveMarkStep(a2, b2, C.marks[0]))
        m9 = RemoveMarkStep(a1, b1, C.marks[0]).merge(AddMarkStep(a2, b2, C.marks[0]))
        ok = ok and m5 is None and m6 is None and ((m4 is not None) == overlap)
        ok = ok and m7 is None and m9 is None and ((m8 is not None) == overlap)
    return rt.fin(ok, "merge of non-adjacent / structure / foreign steps")


def ob_mark(a1: int, b1: int, a2: int, b2: int, mi: int, mj: int, remove: bool) -> bool:
    """post: _"""
    return rt.run(_mark, a1, b1, a2, b2, mi, mj, remove)


def allmarks(C_):
    """The payload marks plus every distinct mark the document itself carries (so that two marks of one type with
    different attrs that are really present can be named - seed C16-4)."""
    ms = list(C_.marks)
    def walk(n):
        for m in n.marks:
            if not any(m.eq(x) for x in ms):
                ms.append(m)
        for i in range(n.child_count):
            walk(n.child(i))
    walk(C_.doc)
    return ms


def _mark(a1, b1, a2, b2, mi, mj, remove):
    MS = allmarks(C)
    nm = len(MS)
    if not nm or not (0 <= a1 <= b1 <= C.size and 0 <= a2 <= b2 <= C.size and 0 <= mi < nm and 0 <= mj < nm):
        return rt.SKIP
    if "a1" in P and a1 != P["a1"]:
        return rt.SKIP
    for x in (a1, b1, a2, b2):
        if C.is_split(x):
            return rt.SKIP
    mi, mj = rt.pick(mi, 0, nm - 1), rt.pick(mj, 0, nm - 1)
    if "ms" in P and (mi not in P["ms"] or mj not in P["ms"]):
        return rt.SKIP
    if "remove" in P and remove != P["remove"]:
        return rt.SKIP
    if not (a1 <= b2 and b1 >= a2):
        return rt.SKIP           # cannot merge: covered by ob_nonadjacent-style dismissal below
    K = RemoveMarkStep if remove else AddMarkStep
    # mi != mj: the steps must not merge unless the merged step is still equivalent (judge accepts None)
    ok, why = judge(K(a1, b1, MS[mi]), K(a2, b2, MS[mj]), C.doc)
    if why == "skip":
        return rt.SKIP
    return rt.fin(ok, why)


QUICK = [("list", 1), ("list", 0), ("strict", 0)]


def reach_replace(C_, a1, ss):
    """Concrete pre-scan: does any adjacent pair starting at a1 apply at all?"""
    ss = [x for x in ss if x < len(C_.slices)]
    for b1 in range(a1, C_.size + 1):
        for s1 in ss:
            d1 = applies(ReplaceStep(a1, b1, C_.slices[s1]), C_.doc)
            if d1 is None:
                continue
            for s2 in ss:
                for (a2, b2s) in ((a1 + C_.slices[s1].size, range(a1 + C_.slices[s1].size, d1.content.size + 1)), (None, [a1])):
                    for b2 in b2s:
                        for a2_ in ([a2] if a2 is not None else range(0, a1 + 1)):
                            if applies(ReplaceStep(a2_, b2, C_.slices[s2]), d1) is not None:
                                return True
    return False


def obligations(tier, seed):
    obs = []
    T = 200 if tier == "quick" else 900
    if tier == "quick":
        parts = [{"schema": s, "doc": i} for (s, i) in QUICK]
    else:
        parts = [{"schema": s, "doc": i} for (s, i) in [("list", 0), ("list", 1), ("list", 3), ("strict", 0), ("iso", 0), ("basic", 1)]]
    for p in parts:
        tag = "%s#%d" % (p["schema"], p["doc"])
        size = common.templates.doc(p["schema"], p["doc"]).content.size
        q = dict(p)
        if tier == "quick":
            q.update(ss=[0, 2, 3, 4, common.templates.nslices(p["schema"])], ms=[0, 1, 2])    # last = the empty slice
        C_ = ops.payloads(common.load(p))
        for a1 in range(size + 1):
            if C_.is_split(a1):
                continue
            if reach_replace(C_, a1, q.get("ss", range(len(C_.slices)))):
                obs.append({"name": "replace/%s/a1=%d" % (tag, a1), "fn": "ob_replace", "P": dict(q, a1=a1), "timeout": T})
            if C_.marks and ((tier != "quick" and size <= 10) or (size <= 7 and a1 in (0, 1, 2, 4))):
                for mk in (q.get("ms", range(len(C_.marks))) if tier != "quick" else [0, 1]):
                    for rem in (False, True):
                        obs.append({"name": "mark/%s/a1=%d/m%d/%s" % (tag, a1, mk, "remove" if rem else "add"), "fn": "ob_mark",
                                    "P": dict(q, a1=a1, ms=[mk], remove=rem), "timeout": T})
        obs.append({"name": "nonadjacent/%s" % tag, "fn": "ob_nonadjacent", "P": p, "timeout": T})
    # two marks of one type with different attrs, both present in the document (list#11: link u / link v), both orders
    p = {"schema": "list", "doc": 11}
    C_ = ops.payloads(common.load(p))
    MS = allmarks(C_)
    same = [i for i, m in enumerate(MS) if m.type.name == "link" and i >= len(C_.marks)]
    for a1 in ((6,) if tier == "quick" else (5, 6, 7)):
        for rem in (False, True):
            obs.append({"name": "mark/list#11/a1=%d/sametype/%s" % (a1, "remove" if rem else "add"), "fn": "ob_mark",
                        "P": dict(p, a1=a1, ms=same, remove=rem), "timeout": T})
    return obs
