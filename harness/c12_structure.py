"""C12 - structure helpers approve only edits that then succeed and keep content intact.

Engine E1: can_split / can_join / join_point / lift_target / find_wrapping / insert_point / drop_point of
transform/structure.py and the Transform methods they guard run with positions, depth, direction and the
type / slice index symbolic on each catalogue document.
"""
from engine import rt
from engine.oracle.tokens import doc_tokens, leaves
from engine.oracle.valid import why_invalid
from harness import common, ops
from prosemirror.transform import Transform, structure

PROPERTY = "C12"
BOUNDS = ("catalogue documents of the bundled/list/strict/title/iso/table/fixed schemas; positions symbolic in range; "
          "split depth 1..3, types_after entries drawn from every non-leaf type and None (restricted to types compatible with the node they replace); join direction both; every wrapper type, node type and slice of the catalogue")
ASSUMPTIONS = ["'succeeds' = no exception and at least one recorded step; positions splitting a surrogate pair excluded"]

P = {}
C = None


def configure(p):
    global C
    P.clear()
    P.update(p)
    C = ops.payloads(common.load(p))


def fine(tr, keep_leaves=True):
    if not tr.steps:
        return "approved edit recorded no step"
    w = why_invalid(tr.doc, C.V)
    if w:
        return "approved edit gave an invalid document: " + w
    if keep_leaves and leaves(doc_tokens(tr.doc)) != leaves(C.tok):
        return "structure-only edit changed the text/leaf sequence"
    return None


def chunk(a):
    return P.get("alo", 0) <= a < P.get("ahi", 10 ** 9)


def ob_split(pos: int, depth: int) -> bool:
    """post: _"""
    return rt.run(_split, pos, depth)


def _split(pos, depth):
    if not (0 <= pos <= C.size and 1 <= depth <= 3) or C.is_split(pos):
        return rt.SKIP
    ok = structure.can_split(C.doc, pos, depth)          # must not raise
    if not ok:
        return rt.fin(True)
    tr = Transform(C.doc)
    tr.split(pos, depth)
    w = fine(tr)
    if w is None and tr.doc.content.size != C.size + 2 * depth:
        w = "split changed the size by %d" % (tr.doc.content.size - C.size)
    return rt.fin(w is None, w)


def ob_split_types(pos: int, depth: int, t0: int, t1: int) -> bool:
    """post: _"""
    return rt.run(_split_types, pos, depth, t0, t1)


def _split_types(pos, depth, t0, t1):
    """can_split / split with explicit types for the nodes after the split."""
    types = [t for t in C.schema.nodes.values() if not t.is_leaf and not t.is_text and not t.has_required_attrs()
             and t is not C.schema.top_node_type]
    # index len(types) stands for a None entry ("keep the original type at this level"), which Transform.split accepts
    if not (0 <= pos <= C.size and 1 <= depth <= 2 and 0 <= t0 <= len(types) and 0 <= t1 <= len(types)) or C.is_split(pos):
        return rt.SKIP
    if depth == 1 and t1 != 0:
        return rt.SKIP
    depth, t0, t1 = rt.pick(depth, 1, 2), rt.pick(t0, 0, len(types)), rt.pick(t1, 0, len(types))
    ta = [structure.NodeTypeWithAttrs(types[t]) if t < len(types) else None for t in (t0, t1)][:depth]
    # the type given for a node after the split must be able to continue that node's content
    # (typesAfter is meant for e.g. paragraph -> heading; a list continued as a code block is outside the claim)
    r = C.doc.resolve(pos)
    if r.depth < depth:
        return rt.fin(structure.can_split(C.doc, pos, depth, ta) is False, "can_split approves a split deeper than the position")
    for j in range(depth):
        orig = r.node(r.depth - depth + 1 + j).type.name
        if ta[j] is not None and not C.V.compatible(ta[j].type.name, orig):
            return rt.SKIP
    if not structure.can_split(C.doc, pos, depth, ta):
        return rt.fin(True)
    tr = Transform(C.doc)
    tr.split(pos, depth, ta)
    w = fine(tr)
    return rt.fin(w is None, w)


def ob_join(pos: int, up: bool) -> bool:
    """post: _"""
    return rt.run(_join, pos, up)


def _join(pos, up):
    if not (0 <= pos <= C.size) or C.is_split(pos):
        return rt.SKIP
    w = None
    cj = structure.can_join(C.doc, pos)
    if cj:
        tr = Transform(C.doc)
        tr.join(pos)
        w = fine(tr)
    jp = structure.join_point(C.doc, pos, 1 if up else -1)
    if w is None and jp is not None:
        if not (0 <= jp <= C.size):
            w = "join_point out of range: %r" % (jp,)
        else:
            tr = Transform(C.doc)
            tr.join(jp)
            w = fine(tr)
            if w:
                w = "join_point=%r: %s" % (jp, w)
    return rt.fin(w is None, w)


def ob_lift(pos: int, pos2: int) -> bool:
    """post: _"""
    return rt.run(_lift, pos, pos2)


def _lift(pos, pos2):
    if not (0 <= pos <= pos2 <= C.size) or not chunk(pos):
        return rt.SKIP
    rng = C.doc.resolve(pos).block_range(C.doc.resolve(pos2))
    if rng is None:
        return rt.fin(True)
    t = structure.lift_target(rng)
    if t is None:
        return rt.fin(True)
    w = None
    if not (0 <= t < rng.depth):
        w = "lift_target %r not in [0, %r)" % (t, rng.depth)
    else:
        tr = Transform(C.doc)
        tr.lift(rng, t)
        w = fine(tr)
    return rt.fin(w is None, w)


def ob_wrap(pos: int, pos2: int, wi: int) -> bool:
    """post: _"""
    return rt.run(_wrap, pos, pos2, wi)


def _wrap(pos, pos2, wi):
    if not C.wrappers or not (0 <= pos <= pos2 <= C.size and 0 <= wi < len(C.wrappers)) or not chunk(pos):
        return rt.SKIP
    wi = rt.pick(wi, 0, len(C.wrappers) - 1)
    rng = C.doc.resolve(pos).block_range(C.doc.resolve(pos2))
    if rng is None:
        return rt.fin(True)
    wr = structure.find_wrapping(rng, C.wrappers[wi])
    if wr is None:
        return rt.fin(True)
    tr = Transform(C.doc)
    tr.wrap(rng, wr)
    w = fine(tr)
    return rt.fin(w is None, w)


def ob_insert_point(pos: int, ni: int) -> bool:
    """post: _"""
    return rt.run(_insert_point, pos, ni)


def _insert_point(pos, ni):
    if not (0 <= pos <= C.size and 0 <= ni < len(C.nodes)) or C.is_split(pos):
        return rt.SKIP
    ni = rt.pick(ni, 0, len(C.nodes) - 1)
    node = C.nodes[ni]
    if node.is_text:
        return rt.SKIP
    q = structure.insert_point(C.doc, pos, node.type)
    if q is None:
        return rt.fin(True)
    w = None
    if not (0 <= q <= C.size):
        w = "insert_point out of range: %r" % (q,)
    else:
        filled = node.type.create_and_fill(node.attrs)
        tr = Transform(C.doc)
        tr.insert(q, filled)
        w = fine(tr, keep_leaves=False)
        if w is None:
            q = rt.pick(q, 0, C.size)
            res = doc_tokens(tr.doc)
            if not (res[q][0] in ("open", "leaf") and res[q][1] == node.type.name and res[:q] == C.tok[:q]):
                w = "node was not inserted exactly at insert_point %r" % (q,)
    return rt.fin(w is None, w)


def ob_drop_point(pos: int, si: int) -> bool:
    """post: _"""
    return rt.run(_drop_point, pos, si)


def _drop_point(pos, si):
    if not (0 <= pos <= C.size and 0 <= si < len(C.slices)) or C.is_split(pos):
        return rt.SKIP
    si = rt.pick(si, 0, len(C.slices) - 1)
    sl = C.slices[si]
    q = structure.drop_point(C.doc, pos, sl)
    if q is None:
        return rt.fin(True)
    w = None
    if not (0 <= q <= C.size):
        w = "drop_point out of range: %r" % (q,)
    elif sl.size:
        tr = Transform(C.doc)
        tr.replace(q, q, sl)
        w = fine(tr, keep_leaves=False)
        if w:
            w = "drop_point=%r: %s" % (q, w)
    return rt.fin(w is None, w)


QUICK = [("list", 3), ("list", 6), ("list", 4), ("list", 13), ("strict", 1), ("iso", 3), ("table", 0), ("title", 3)]


def obligations(tier, seed):
    obs = []
    T = 150 if tier == "quick" else 900
    if tier == "quick":
        parts = [{"schema": s, "doc": i} for (s, i) in QUICK]
    else:
        parts = common.doc_partitions(["basic", "list", "strict", "title", "fixed", "iso", "table"], tier)
    for p in parts:
        tag = "%s#%d" % (p["schema"], p["doc"])
        size = common.templates.doc(p["schema"], p["doc"]).content.size
        obs.append({"name": "split/" + tag, "fn": "ob_split", "P": p, "timeout": T})
        obs.append({"name": "join/" + tag, "fn": "ob_join", "P": p, "timeout": T})
        obs.append({"name": "split_types/" + tag, "fn": "ob_split_types", "P": p, "timeout": T * 2})
        obs.append({"name": "insert_point/" + tag, "fn": "ob_insert_point", "P": p, "timeout": T})
        obs.append({"name": "drop_point/" + tag, "fn": "ob_drop_point", "P": p, "timeout": T})
        for lo in range(0, size + 1, 6):
            obs.append({"name": "lift/%s/%d" % (tag, lo), "fn": "ob_lift", "P": dict(p, alo=lo, ahi=lo + 6), "timeout": T})
        if False:
            pass
        for lo in range(0, size + 1, 3):
            obs.append({"name": "wrap/%s/%d" % (tag, lo), "fn": "ob_wrap", "P": dict(p, alo=lo, ahi=lo + 3), "timeout": T})
    p = {"schema": "list", "doc": 15}              # a list item with three paragraphs followed by a nested list
    size = common.templates.doc("list", 15).content.size
    for lo in range(0, size + 1, 4):
        obs.append({"name": "lift/list#15/%d" % lo, "fn": "ob_lift", "P": dict(p, alo=lo, ahi=lo + 4), "timeout": T})
    if True:
        p = {"schema": "list", "doc": 17}          # a nested list with two items: lifting the first one (open known finding)
        size = common.templates.doc("list", 17).content.size
        for lo in range(0, size + 1, 6):
            obs.append({"name": "lift/list#17/%d" % lo, "fn": "ob_lift", "P": dict(p, alo=lo, ahi=lo + 6), "timeout": T})
    return obs
