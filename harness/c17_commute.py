"""C17 - concurrent edits to separate parts of a document commute after rebasing.

Engine E1: step X is taken from the concrete list of all distinct single steps that the high-level operations
emit on the template (symbolic index into that list); step Y is the single step emitted by one operation with
symbolic arguments.  Where the old-side extents the two steps touch are separated by at least one token,
Y.map(X.get_map()) and X.map(Y.get_map()) must exist, both orders must apply and give equal documents.
"""
import json

from engine import rt
from harness import common, ops
from prosemirror.transform import Transform

PROPERTY = "C17"
BOUNDS = ("templates <= 15 tokens of the list/strict/iso schemas; X: every distinct single step emitted by the 21 "
          "operation kinds over all concrete arguments (quick: every 3rd); Y: the step of one operation with symbolic "
          "arguments; both role assignments are covered because X and Y range over the same set")
ASSUMPTIONS = ["touched extent of a step = [min range start, max range end] of its map on the old side, [from, to] for mark "
               "steps and replace-around steps, [pos, pos+1] for node-mark/attr steps; separation = at least one token between the extents",
               "operations that emit more than one step are outside this check (their steps are not independent edits)"]

P = {}
C = None
XS = []


def extent(step):
    if hasattr(step, "gap_from"):
        return step.from_, step.to
    if hasattr(step, "from_"):
        return step.from_, step.to
    if hasattr(step, "pos"):
        return step.pos, step.pos + 1
    return None


def all_single_steps(C_, kinds):
    seen, out = set(), []
    for kind in kinds:
        nx = ops.xrange_of(C_, kind)
        for a in range(C_.size + 1):
            for b in (range(a, C_.size + 1) if ops.uses_b(kind) else [a]):
                for x in range(nx):
                    tr = Transform(C_.doc)
                    try:
                        ops.run_op(C_, tr, kind, a, b, x)
                    except Exception:  # noqa: BLE001
                        continue
                    if len(tr.steps) != 1:
                        continue
                    key = json.dumps(tr.steps[0].to_json(), sort_keys=True)
                    if key not in seen and extent(tr.steps[0]) is not None:
                        seen.add(key)
                        out.append(tr.steps[0])
    return out


XKINDS = ["delete", "replace", "insert", "add_mark", "remove_mark", "split", "join", "lift", "wrap", "set_block_type",
          "set_node_markup", "replace_range", "delete_range"]


def configure(p):
    global C
    P.clear()
    P.update(p)
    C = ops.payloads(common.load(p))
    del XS[:]
    allx = all_single_steps(C, XKINDS)
    XS.extend(allx[::max(1, len(allx) // P.get("nx", 48))])


def apply_ok(step, doc):
    try:
        r = step.apply(doc)
    except ValueError as e:
        return None, repr(e)
    if r.failed is not None:
        return None, r.failed
    return r.doc, None


def ob_commute(xi: int, a: int, b: int, x: int) -> bool:
    """post: _"""
    return rt.run(_commute, xi, a, b, x)


def _commute(xi, a, b, x):
    kind = P["kind"]
    nx = ops.xrange_of(C, kind)
    if not (0 <= xi < len(XS) and 0 <= a <= C.size and 0 <= x < nx):
        return rt.SKIP
    if not (P.get("xlo", 0) <= xi < P.get("xhi", 10 ** 9)):
        return rt.SKIP
    if ops.uses_b(kind):
        if not (a <= b <= C.size):
            return rt.SKIP
    elif b != a:
        return rt.SKIP
    if C.is_split(a) or C.is_split(b):
        return rt.SKIP
    xi, x = rt.pick(xi, 0, len(XS) - 1), rt.pick(x, 0, nx - 1)
    if "xs" in P and x not in P["xs"]:
        return rt.SKIP
    X = XS[xi]
    lox, hix = extent(X)
    # cheap symbolic pre-filter: Y's arguments must lie strictly on one side of X's extent
    if not (b + 1 <= lox or hix + 1 <= a):
        return rt.SKIP
    tr = Transform(C.doc)
    try:
        ops.run_op(C, tr, kind, a, b, x)
    except (ops.Skip, ValueError):
        return rt.SKIP
    if len(tr.steps) != 1:
        return rt.SKIP
    Y = tr.steps[0]
    ext = extent(Y)
    if ext is None:
        return rt.SKIP
    loy, hiy = ext
    if not (hix + 1 <= loy or hiy + 1 <= lox):
        return rt.SKIP
    doc = C.doc
    Ym = Y.map(X.get_map())
    Xm = X.map(Y.get_map())
    if Ym is None or Xm is None:
        return rt.fin(False, "rebasing dropped a step: Y'=%r X'=%r" % (Ym, Xm))
    dx, e1 = apply_ok(X, doc)
    dy, e2 = apply_ok(Y, doc)
    if dx is None or dy is None:
        return rt.SKIP
    dxy, e3 = apply_ok(Ym, dx)
    dyx, e4 = apply_ok(Xm, dy)
    if dxy is None or dyx is None:
        return rt.fin(False, "a rebased step does not apply: %r / %r" % (e3, e4))
    ok = dxy.eq(dyx) and dyx.eq(dxy) and dxy.attrs == dyx.attrs
    return rt.fin(ok, "orders differ: X;Y' = %s   Y;X' = %s" % (dxy, dyx))


QUICK = [("list", 1), ("strict", 0)]
YKINDS_QUICK = ["delete", "replace", "add_mark", "remove_mark", "split"]


def obligations(tier, seed):
    obs = []
    T = 200 if tier == "quick" else 900
    docs = QUICK if tier == "quick" else [("list", 0), ("list", 1), ("strict", 0), ("iso", 1)]
    kinds = YKINDS_QUICK if tier == "quick" else YKINDS_QUICK + ["insert", "wrap", "lift", "set_block_type"]
    for (sn, i) in docs:
        p = {"schema": sn, "doc": i}
        C_ = ops.payloads(common.load(p))
        nall = len(all_single_steps(C_, XKINDS))
        want = 24 if tier == "quick" else 60
        n = len(range(0, nall, max(1, nall // want)))
        chunk = 3 if tier == "quick" else 4
        has_marks = any(len(t) > 2 and t[0] == "t" and t[2] for t in C_.tok)
        for kind in kinds:
            if kind == "remove_mark" and not has_marks:
                continue                     # nothing to remove anywhere in this template: every partition would be vacuous
            nx = ops.xrange_of(C_, kind)
            q = dict(p, kind=kind, nx=want)
            if tier == "quick" and nx > 2:
                q["xs"] = [0, nx // 2]
            for lo in range(0, n, chunk):
                obs.append({"name": "%s/%s#%d/X%d" % (kind, sn, i, lo), "fn": "ob_commute",
                            "P": dict(q, xlo=lo, xhi=lo + chunk), "timeout": T, "allow_vacuous": True})
    return obs
