"""C18 - edits made inside an isolating node never reach outside it.

Engine E1: replace-family operations with both range ends symbolic inside the content span of an
isolating node (the node is the partition), lift_target / can_split with symbolic positions and depth,
and Slice.max_open on the slice catalogue.
"""
from engine import rt
from engine.oracle.tokens import doc_tokens, frag_tokens
from engine.oracle.valid import why_invalid
from harness import common, ops
from prosemirror.model import Slice
from prosemirror.transform import Transform, structure

PROPERTY = "C18"
BOUNDS = ("documents of the iso and table schemas (isolating block containers, tables and cells, nested); every "
          "isolating node of each template; range ends symbolic within the node's content (incl. the whole content); "
          "every catalogue slice / node; lift/split positions and depths symbolic")
ASSUMPTIONS = ["positions that split a surrogate pair are excluded"]
KINDS = ["replace", "replace_with", "insert", "delete", "replace_range", "replace_range_with", "delete_range"]

P = {}
C = None


def configure(p):
    global C
    P.clear()
    P.update(p)
    C = ops.payloads(common.load(p))


def iso_nodes(C_):
    out = []
    for i, t in enumerate(C_.tok):
        if t[0] == "open" and C_.V.nodes[t[1]].get("isolating"):
            out.append((i, C_.pm.match[i]))
    return out


def ob_edit(a: int, b: int, x: int) -> bool:
    """post: _"""
    return rt.run(_edit, a, b, x)


def _edit(a, b, x):
    kind = P["kind"]
    o, c = P["iso"]
    nx = ops.xrange_of(C, kind)
    if not (o + 1 <= a <= b <= c and 0 <= x < nx):
        return rt.SKIP
    if kind == "insert" and a != b:
        return rt.SKIP
    if C.is_split(a) or C.is_split(b):
        return rt.SKIP
    x = rt.pick(x, 0, nx - 1)
    if "xs" in P and x not in P["xs"]:
        return rt.SKIP
    tr = Transform(C.doc)
    try:
        ops.run_op(C, tr, kind, a, b, x)
    except ValueError:
        return rt.fin(tr.doc is C.doc, "rejected edit changed the document")   # totality is C11's subject
    tok = C.tok
    res = doc_tokens(tr.doc)
    delta = len(res) - len(tok)

    def node_end(k0):
        depth = 0
        for k in range(k0, len(res)):
            if res[k][0] == "open":
                depth += 1
            elif res[k][0] == "close":
                depth -= 1
                if depth == 0:
                    return k
        return None
    prefix_ok = res[:o + 1] == tok[:o + 1]
    strict = prefix_ok and c + delta > o and res[c + delta:] == tok[c:] and node_end(o) == c + delta
    ok, why = strict, None
    if not strict:
        tail = tok[c + 1:]
        head = tok[:o]
        weak = (res[:len(head)] == head and (res[len(res) - len(tail):] == tail if tail else True)
                and len(res) >= len(head) + len(tail) + 2
                and any(t == tok[o] for t in res[len(head):len(res) - len(tail)]))
        # weak: every old token outside the node is still there and the node still exists, but content was
        # placed outside it or it was split by the fitter - listed for table-like schemas as an open finding
        if weak and C.schema_name == "table" and kind not in ("delete", "delete_range") \
                and rt.known_mode("C18-fitter-escape-table"):
            ok = True
        else:
            why = "tokens outside the isolating node (%d..%d) changed, or the node was split/escaped: %r" % (o, c, res)
    if ok and why_invalid(tr.doc, C.V):
        ok, why = False, "invalid result"
    return rt.fin(ok, why)


def ob_helpers(pos: int, pos2: int, depth: int) -> bool:
    """post: _"""
    return rt.run(_helpers, pos, pos2, depth)


def _helpers(pos, pos2, depth):
    """lift_target never returns a depth above an isolating ancestor of the range;
    can_split is false when the split would cut an isolating node."""
    doc = C.doc
    if not (0 <= pos <= pos2 <= C.size and 1 <= depth <= 5):
        return rt.SKIP
    ok = True
    why = None
    rng = doc.resolve(pos).block_range(doc.resolve(pos2))
    t = structure.lift_target(rng) if rng is not None else None
    cs = structure.can_split(doc, pos, depth)
    pos, pos2, depth = rt.pick(pos, 0, C.size), rt.pick(pos2, 0, C.size), rt.pick(depth, 1, 5)
    st = C.pm.stack(pos)
    if t is not None:
        # ancestors at depths t+1 .. rng.depth are dissolved/escaped by the lift: none may be isolating
        for d in range(t + 1, rng.depth + 1):
            if d >= 1 and C.V.nodes[C.tok[st[d - 1]][1]].get("isolating"):
                ok, why = False, "lift_target %r crosses the isolating ancestor at depth %d" % (t, d)
    if cs:
        # splitting at pos with `depth` cuts the ancestors at depths len(st)-depth+1 .. len(st)
        for d in range(len(st) - depth + 1, len(st) + 1):
            if d >= 1 and C.V.nodes[C.tok[st[d - 1]][1]].get("isolating"):
                ok, why = False, "can_split approves cutting the isolating ancestor at depth %d" % d
    return rt.fin(ok, why)


def ob_max_open(si: int, iso: bool) -> bool:
    """post: _"""
    return rt.run(_max_open, si, iso)


def _max_open(si, iso):
    if not (0 <= si < len(C.slices)):
        return rt.SKIP
    si = rt.pick(si, 0, len(C.slices) - 1)
    iso = rt.pickb(iso)
    frag = C.slices[si].content
    sl = Slice.max_open(frag, iso)

    def count(side):
        n, k = frag, 0
        kids = n.content
        while kids:
            c = kids[0] if side == 0 else kids[-1]
            if c.is_leaf or c.is_text:
                break
            if not iso and C.V.nodes[c.type.name].get("isolating"):
                break
            k += 1
            kids = c.content.content
        return k
    ok = sl.open_start == count(0) and sl.open_end == count(1) and sl.content is frag
    return rt.fin(ok, "max_open(%r) = (%d,%d) want (%d,%d)" % (iso, sl.open_start, sl.open_end, count(0), count(1)))


def obligations(tier, seed):
    obs = []
    T = 150 if tier == "quick" else 900
    parts = [("iso", 0), ("iso", 3), ("table", 0)] if tier == "quick" else \
        [("iso", 0), ("iso", 1), ("iso", 3), ("table", 0), ("table", 1)]
    for (sn, i) in parts:
        p = {"schema": sn, "doc": i}
        C_ = common.load(p)
        tag = "%s#%d" % (sn, i)
        isos = iso_nodes(C_)
        if tier == "quick":
            isos = isos[:2]
        for (o, c) in isos:
            for kind in KINDS:
                q = dict(p, kind=kind, iso=[o, c])
                if tier == "quick" and kind in ("replace", "replace_range"):
                    ns = common.templates.nslices(p["schema"])     # ns = the empty slice; ns-3, ns-1 = slices that start inside an isolating node
                    for part, xs in enumerate(([1, 5, 13], [ns - 3, ns - 1, ns])):
                        obs.append({"name": "%s/%s/iso@%d/x%d" % (kind, tag, o, part), "fn": "ob_edit", "P": dict(q, xs=xs), "timeout": T})
                    continue
                if tier == "quick" and kind not in ("delete", "delete_range", "insert"):
                    q["xs"] = [0, 2, 7]
                obs.append({"name": "%s/%s/iso@%d" % (kind, tag, o), "fn": "ob_edit", "P": q, "timeout": T})
        obs.append({"name": "helpers/%s" % tag, "fn": "ob_helpers", "P": p, "timeout": T * 2})
        obs.append({"name": "max_open/%s" % tag, "fn": "ob_max_open", "P": p, "timeout": T})
    return obs
