"""C15 - content filling and wrapper search are sound and find an answer when one exists.

Engine E2b (direct z3).  For every enumerated expression, every state q of the compiled matcher (read
through the public API), every following sequence and start index:
  soundness    : a returned filler consists of generatable types only and  path(q).filler.after  is in
                 Pref(R_E) (in R_E when to_end) - membership decided by z3 on the reference regex;
  completeness : if the library returned None, the query  exists u in Gen^{<= n}: path(q).u.after in (Pref) R_E
                 must be unsat.
Wrapper search on enumerated well-founded nested schemas and the repository's schemas: the five clauses
of the statement are decided on tables computed from the reference regexes; "shortest" / "none exists" is
a finite-domain SMT query over wrapper chains.
"""
import itertools
import re
import time
from collections import Counter

import z3

from engine import smt_regex
from engine.oracle import cexpr
from engine.oracle.valid import SpecView, why_invalid
from harness import c06_content as c06
from prosemirror.model import Fragment, Schema

PROPERTY = "C15"
BOUNDS = ("fill_before: expressions of size <= 3 (thorough 4) over the three alphabets of C06 (incl. non-generatable "
          "text and required-attribute types), every automaton state, following sequences of length <= 2, start index "
          "0..len, both to_end values, plus 12 larger expressions whose first alternative cannot take the following content (backtracking),  fillers up to length n_states+1; wrappers: 3-type nested schemas with content "
          "drawn from 7 expressions (all well-founded combinations) and the catalogue schemas, every state, every target")
ASSUMPTIONS = ["match positions are represented by a shortest child sequence reaching the state (sound given C06)"]

P = {}


def configure(p):
    P.clear()
    P.update(p)


def shortest_paths(states):
    paths = {0: []}
    work = [0]
    while work:
        q = work.pop(0)
        for (t, to) in states[q]["edges"]:
            if to not in paths:
                paths[to] = paths[q] + [t]
                work.append(to)
    return paths


def zin(word, R, letter):
    """Membership of a concrete word in a z3 regex (decided by z3)."""
    s = "".join(letter[t] for t in word)
    return z3.is_true(z3.simplify(z3.InRe(z3.StringVal(s), R)))


def q(solver, stats):
    t = time.time()
    r = str(solver.check())
    stats["solver_s"] += time.time() - t
    stats["queries"] += 1
    stats[r if r in ("sat", "unsat") else "unknown"] += 1
    return r


def fill_cases(alpha, expr, solver, stats):
    A = c06.ALPHABETS[alpha]
    spec = c06.spec_for(alpha, expr)
    try:
        schema = Schema(spec)
    except Exception:  # noqa: BLE001 - rejected expressions are C06's subject
        return None
    ast = cexpr.parse(expr, spec["nodes"])
    types = [t for t in spec["nodes"] if t not in ("doc", "p")]
    letter = {t: chr(ord("a") + i) for i, t in enumerate(types)}
    R = smt_regex.to_z3(ast, letter)
    RP = smt_regex.to_z3(smt_regex.pref(ast), letter)
    gen = c06.generatable(alpha)
    par = schema.nodes[A["parent"]]
    states, objs = smt_regex.extract(par.content_match)
    paths = shortest_paths(states)
    nmax = len(states) + 1
    genre = z3.Star(z3.Union(*[z3.Re(z3.StringVal(letter[g])) for g in gen])) if len(gen) > 1 else \
        (z3.Star(z3.Re(z3.StringVal(letter[gen[0]]))) if gen else smt_regex.eps())
    u = z3.String("u")
    afters = [[]] + [[t] for t in types] + [[a, b] for a in types for b in types][: P.get("after2", 99)]
    for st in range(len(states)):
        pre = paths[st]
        for after in afters:
            frag = c06.build_fragment(schema, after)
            for start in range(len(after) + 1):
                for to_end in (False, True):
                    stats["cases"] += 1
                    got = objs[st].fill_before(frag, to_end, start)
                    rest = after[start:]
                    target = R if to_end else RP
                    if got is not None:
                        names = [c.type.name for c in got.content]
                        if any(n not in gen for n in names):
                            return {"kind": "fill-nongeneratable", "alpha": alpha, "expr": expr, "state_path": pre,
                                    "after": after, "start": start, "to_end": to_end}
                        if not zin(pre + names + rest, target, letter):
                            return {"kind": "fill-unsound", "alpha": alpha, "expr": expr, "state_path": pre,
                                    "after": after, "start": start, "to_end": to_end}
                        stats["filled"] += 1
                    else:
                        solver.push()
                        solver.add(z3.InRe(u, genre), z3.Length(u) <= nmax)
                        solver.add(z3.InRe(z3.Concat(z3.StringVal("".join(letter[t] for t in pre)), u,
                                                     z3.StringVal("".join(letter[t] for t in rest))), target))
                        r = q(solver, stats)
                        solver.pop()
                        if r == "sat":
                            return {"kind": "fill-incomplete", "alpha": alpha, "expr": expr, "state_path": pre,
                                    "after": after, "start": start, "to_end": to_end}
                        if r != "unsat":
                            raise c06.Inconclusive(r)
    # create_and_fill on the parent type with up to one given child
    V = SpecView(spec)
    for content in [[]] + [[t] for t in types]:
        stats["cases"] += 1
        node = par.create_and_fill(None, c06.build_fragment(schema, content) if content else None)
        if node is None:
            continue
        kids = [c.type.name for c in node.content.content]
        it = iter(kids)
        if why_invalid(node, V) is not None or not all(any(k == c for k in it) for c in content):
            return {"kind": "create_and_fill", "alpha": alpha, "expr": expr, "content": content}
        extra = list(kids)
        for c in content:
            extra.remove(c)
        if any(e not in gen for e in extra):
            return {"kind": "create_and_fill", "alpha": alpha, "expr": expr, "content": content}
    return None


def direct_fill(p):
    stats = Counter()
    solver = z3.Solver()
    solver.set("timeout", 30000)
    exprs = c06.exprs_for(p)
    inc = 0
    for ex in exprs:
        try:
            ce = fill_cases(p["alpha"], ex, solver, stats)
        except c06.Inconclusive:
            inc += 1
            solver = z3.Solver()
            continue
        if ce is not None:
            return {"status": "refuted", "ce": ce, "queries": stats["queries"]}
    return {"status": "confirmed" if not inc else "inconclusive", "queries": stats["queries"], "sat": stats["sat"],
            "unsat": stats["unsat"], "solver_s": round(stats["solver_s"], 2), "paths": stats["cases"] + stats["queries"],
            "reached": stats["filled"] + stats["queries"], "programs": len(exprs), "witness_args": exprs[:3]}


def replay_fill(p, ce):
    """Plain CPython + Python's re: does the real answer contradict the reference?"""
    alpha, expr = ce["alpha"], ce["expr"]
    A = c06.ALPHABETS[alpha]
    spec = c06.spec_for(alpha, expr)
    schema = Schema(spec)
    ast = cexpr.parse(expr, spec["nodes"])
    letters = {t: chr(0x100 + i) for i, t in enumerate(spec["nodes"])}
    full = re.compile(cexpr.to_pyre(ast, letters))
    pre = re.compile(cexpr.to_pyre(smt_regex.pref(ast), letters))
    gen = c06.generatable(alpha)
    par = schema.nodes[A["parent"]]
    if ce["kind"] == "create_and_fill":
        node = par.create_and_fill(None, c06.build_fragment(schema, ce["content"]) if ce["content"] else None)
        if node is None:
            return True
        kids = [c.type.name for c in node.content.content]
        if not full.fullmatch("".join(letters[k] for k in kids)):
            return False
        it = iter(kids)
        if not all(any(k == c for k in it) for c in ce["content"]):
            return False
        extra = list(kids)
        for c in ce["content"]:
            extra.remove(c)
        return all(e in gen for e in extra)
    m = par.content_match.match_fragment(c06.build_fragment(schema, ce["state_path"]))
    got = m.fill_before(c06.build_fragment(schema, ce["after"]), ce["to_end"], ce["start"])
    rest = ce["after"][ce["start"]:]
    target = full if ce["to_end"] else pre

    def word(ts):
        return "".join(letters[t] for t in ts)
    if got is not None:
        names = [c.type.name for c in got.content]
        return all(n in gen for n in names) and bool(target.fullmatch(word(ce["state_path"] + names + rest)))
    for n in range(0, 6):
        for uu in itertools.product(gen, repeat=n):
            if target.fullmatch(word(ce["state_path"] + list(uu) + rest)):
                return False
    return True


# ---- wrappers -------------------------------------------------------------------------------------
WRAP_EXPRS = ["", "c", "c*", "b+", "a", "(b | c)+", "c b?", "a | c"]


def nested_specs():
    """3-type nested schemas doc/a/b/c(leaf)/r(leaf, required attr) - well-founded combinations only."""
    out = []
    for ed, ea, eb in itertools.product(["a+", "(a | b)+", "b c*", "a? c", "r a"], WRAP_EXPRS, WRAP_EXPRS):
        nodes = {"doc": {"content": ed}, "a": {"content": ea}, "b": {"content": eb}, "c": {},
                 "r": {"attrs": {"id": {}}}, "w": {"content": "c*", "attrs": {"k": {}}}, "text": {}}
        # well-founded: every type can be completed with finitely many generatable nodes
        ok = {"c"}
        changed = True
        V = SpecView({"nodes": nodes})
        while changed:
            changed = False
            for t in ("a", "b", "doc"):
                if t in ok:
                    continue
                cand = [x for x in ok]
                for n in range(0, 3):
                    if any(V.content_ok(t, list(wd)) for wd in itertools.product(cand, repeat=n)):
                        ok.add(t)
                        changed = True
                        break
        if {"a", "b", "doc"} <= ok:
            out.append(nodes)
    return out


W2 = ["w", "w n", "n w", "w+", "w n?", "n? w", "t", "n", "w?", "w* n"]


def nested_specs2():
    """Same wrapper type `w` below two different parents with different constraints on its siblings:
    doc > (p1 | p2) > w > t.  All combinations are well-founded (n, t are leaves)."""
    out = []
    for e1, e2 in itertools.product(W2, W2):
        for dexpr in ("(p1 | p2)+", "(p2 | p1)+", "p1 p2*"):
            out.append({"doc": {"content": dexpr}, "p1": {"content": e1}, "p2": {"content": e2}, "w": {"content": "t+", "attrs": {"k": {"default": None}}},
                        "n": {}, "t": {}, "text": {}})
    return out


def wrap_tables(spec):
    V = SpecView(spec)
    types = list(spec["nodes"].keys())
    letter = {t: chr(ord("A") + i) for i, t in enumerate(types)}
    R, RP = {}, {}
    for t in types:
        ast = V.ast(t)
        R[t] = smt_regex.to_z3(ast, letter)
        RP[t] = smt_regex.to_z3(smt_regex.pref(ast), letter)
    single = {t: {u: zin([u], R[t], letter) for u in types} for t in types}
    first = {t: {u: zin([u], RP[t], letter) for u in types} for t in types}
    wrappable = {}
    for t in types:
        attrs = spec["nodes"][t].get("attrs") or {}
        wrappable[t] = (not V.is_leaf(t)) and all("default" in a for a in attrs.values())
    return V, types, letter, R, RP, single, first, wrappable


def chain_exists(solver, stats, types, fits, single, first, wrappable, target, k):
    """SMT: is there a chain w_1..w_k with the five clauses?  (k = 0: target fits directly)"""
    if k == 0:
        return fits[target]
    n = len(types)
    ws = [z3.Int("w%d" % i) for i in range(k)]
    solver.push()
    for w in ws:
        solver.add(w >= 0, w < n)
        solver.add(z3.Or(*[w == i for i, t in enumerate(types) if wrappable[t]] or [z3.BoolVal(False)]))
    solver.add(z3.Or(*[ws[0] == i for i, t in enumerate(types) if fits[t]] or [z3.BoolVal(False)]))
    for j in range(k - 1):
        solver.add(z3.Or(*[z3.And(ws[j] == a, ws[j + 1] == b) for a, ta in enumerate(types) for b, tb in enumerate(types)
                           if single[ta][tb]] or [z3.BoolVal(False)]))
    solver.add(z3.Or(*[ws[k - 1] == a for a, ta in enumerate(types) if first[ta][target]] or [z3.BoolVal(False)]))
    r = q(solver, stats)
    solver.pop()
    if r not in ("sat", "unsat"):
        raise c06.Inconclusive(r)
    return r == "sat"


def wrap_cases(spec, solver, stats, label):
    try:
        schema = Schema(spec)
    except Exception:  # noqa: BLE001
        return None
    V, types, letter, R, RP, single, first, wrappable = wrap_tables(spec)
    for tname in types:
        nt = schema.nodes[tname]
        if V.is_leaf(tname):
            continue
        states, objs = smt_regex.extract(nt.content_match)
        paths = shortest_paths(states)
        for st in range(len(states)):
            fits = {t: zin(paths[st] + [t], RP[tname], letter) for t in types}
            for target in types:
                stats["cases"] += 1
                got = objs[st].find_wrapping(schema.nodes[target])
                base = {"kind": "wrap", "label": label, "spec": {k: {kk: vv for kk, vv in v.items() if kk in ("content", "attrs", "group", "inline", "marks")}
                                                                   for k, v in spec["nodes"].items()},
                        "type": tname, "state_path": paths[st], "target": target}
                if got is not None:
                    chain = [w.name for w in got]
                    ok = True
                    if chain:
                        ok = fits[chain[0]] and first[chain[-1]][target] and all(wrappable[w] for w in chain)
                        ok = ok and all(single[chain[i]][chain[i + 1]] for i in range(len(chain) - 1))
                    else:
                        ok = fits[target]
                    if not ok:
                        return dict(base, why="chain %r violates a clause" % (chain,))
                    for k in range(len(chain)):
                        if chain_exists(solver, stats, types, fits, single, first, wrappable, target, k):
                            return dict(base, why="chain %r is not shortest: one of length %d exists" % (chain, k))
                    stats["filled"] += 1
                else:
                    for k in range(0, len(types) + 1):
                        if chain_exists(solver, stats, types, fits, single, first, wrappable, target, k):
                            return dict(base, why="None returned but a chain of length %d exists" % k)
    return None


def direct_wrap(p):
    from engine import schemas
    stats = Counter()
    solver = z3.Solver()
    solver.set("timeout", 30000)
    if p["what"] == "nested":
        specs = [({"nodes": n}, "nested#%d" % i) for i, n in enumerate(nested_specs())][p["lo"]:p["hi"]]
    elif p["what"] == "nested2":
        specs = [({"nodes": n}, "nested2#%d" % i) for i, n in enumerate(nested_specs2())][p["lo"]:p["hi"]]
    else:
        specs = [(schemas.spec_of(sn), sn) for sn in p["schemas"]]
    for spec, label in specs:
        try:
            ce = wrap_cases(spec, solver, stats, label)
        except c06.Inconclusive:
            return {"status": "inconclusive", "detail": "solver unknown", "queries": stats["queries"]}
        if ce is not None:
            return {"status": "refuted", "ce": ce, "queries": stats["queries"]}
    return {"status": "confirmed", "queries": stats["queries"], "sat": stats["sat"], "unsat": stats["unsat"],
            "solver_s": round(stats["solver_s"], 2), "paths": stats["cases"] + stats["queries"], "reached": stats["filled"] + stats["queries"],
            "programs": len(specs), "witness_args": [l for _s, l in specs[:3]]}


def replay_wrap(p, ce):
    """Brute force over chains with Python's re."""
    from engine import schemas
    spec = schemas.spec_of(ce["label"]) if not ce["label"].startswith("nested") else {"nodes": ce["spec"]}
    schema = Schema(spec)
    V = SpecView(spec)
    types = list(spec["nodes"].keys())
    nt = schema.nodes[ce["type"]]
    nodes = []
    for t in ce["state_path"]:
        tt = schema.nodes[t]
        nodes.append(schema.text("x") if t == "text" else tt.create({k: 1 for k, a in tt.attrs.items() if a.is_required} or None))
    m = nt.content_match.match_fragment(Fragment(nodes))
    got = m.find_wrapping(schema.nodes[ce["target"]])

    def pref_ok(t, word):
        letters = V.letter
        return re.fullmatch(cexpr.to_pyre(smt_regex.pref(V.ast(t)), letters), "".join(letters[x] for x in word)) is not None

    def wrappable(t):
        attrs = spec["nodes"][t].get("attrs") or {}
        return (not V.is_leaf(t)) and all("default" in a for a in attrs.values())

    def good(chain):
        if not chain:
            return pref_ok(ce["type"], ce["state_path"] + [ce["target"]])
        return (pref_ok(ce["type"], ce["state_path"] + [chain[0]]) and all(wrappable(w) for w in chain)
                and all(V.content_ok(chain[i], [chain[i + 1]]) for i in range(len(chain) - 1))
                and pref_ok(chain[-1], [ce["target"]]))
    best = None
    for k in range(0, len(types) + 1):
        if any(good(list(c)) for c in itertools.product(types, repeat=k)):
            best = k
            break
    if got is None:
        return best is None
    chain = [w.name for w in got]
    return good(chain) and best == len(chain)


def obligations(tier, seed):
    obs = []
    maxsize = 3 if tier == "quick" else 4
    chunk = 25 if tier == "quick" else 40
    for alpha in c06.ALPHABETS:
        names = c06.ALPHABETS[alpha]["names"]
        for size in range(1, maxsize + 1):
            n = len(c06.enum_exprs(names, size))
            for lo in range(0, n, chunk):
                obs.append({"name": "fill/%s/size=%d/%d" % (alpha, size, lo), "fn": "direct_fill", "kind": "direct",
                            "P": {"alpha": alpha, "what": "enum", "size": size, "lo": lo, "hi": lo + chunk,
                                  "after2": 6 if tier == "quick" else 99}, "timeout": 900})
    # alternatives whose first branch cannot take the following content (the filler search must back out of it cleanly)
    obs.append({"name": "fill/abc/explicit", "fn": "direct_fill", "kind": "direct", "timeout": 900,
                "P": {"alpha": "abc", "what": "explicit", "after2": 99,
                      "exprs": ["a | b c", "a a | b c", "a b+ | c a", "a? b | c a", "(a | b) c | b a", "a{2} | b c", "a b a | a c",
                                "(a b | c)+ a", "a (b b | c a)", "(a | b a)* c", "a* b | c{2}", "(a{0,} b | c) a"]}})
    nn = len(nested_specs())
    step = 12 if tier == "quick" else 8
    for lo in range(0, nn, step):
        obs.append({"name": "wrap/nested/%d" % lo, "fn": "direct_wrap", "kind": "direct",
                    "P": {"what": "nested", "lo": lo, "hi": lo + step}, "timeout": 900})
    n2 = len(nested_specs2())
    step2 = 16 if tier == "quick" else 8
    for lo in range(0, n2, step2):
        obs.append({"name": "wrap/nested2/%d" % lo, "fn": "direct_wrap", "kind": "direct",
                    "P": {"what": "nested2", "lo": lo, "hi": lo + step2}, "timeout": 900})
    for sn in ("basic", "list", "strict", "title", "iso", "table", "fixed"):
        obs.append({"name": "wrap/catalogue/" + sn, "fn": "direct_wrap", "kind": "direct",
                    "P": {"what": "catalogue", "schemas": [sn]}, "timeout": 900})
    return obs


def direct_fill_replay_name():
    return "replay_fill"
