"""Shared vocabulary for the step / transform level harnesses: payload catalogues per schema and a
dispatcher that performs one high-level Transform operation from integer arguments."""
from engine import templates
from harness import common
from prosemirror.model import Fragment, Slice
from prosemirror.transform.doc_attr_step import DocAttrStep
from prosemirror.transform import (AddMarkStep, AddNodeMarkStep, AttrStep, RemoveMarkStep,
                                   RemoveNodeMarkStep, ReplaceAroundStep, ReplaceStep, Transform, structure)
from prosemirror.transform.structure import NodeTypeWithAttrs


def payloads(C):
    """Attach slice / node / mark / type catalogues for C's schema."""
    sn = C.schema_name
    sch = C.schema
    C.slices = [templates.slice_(sn, i) for i in range(templates.nslices(sn))]
    C.slices.append(Slice.empty)
    C.slices.extend(templates.late_slices(sn))
    nodes = []
    for expr in ('p("n")', 'p()', 'hr()', 'img()', 'br()', 'h1("h")', 'pre("c")', 'bq(p("q"))', 'ul(li(p("i")))',
                 'fa("x")', 'blk(fa(), fb())', 'iso(p("s"))', 'title("t")', 'body(p("y"))', 'plain("z")', 'pic()',
                 'table(row(cell(p("t"))))'):
        try:
            n = templates.build(sn, expr)
        except Exception:  # noqa: BLE001 - builder name not in this schema
            continue
        nodes.append(n)
    try:
        nodes.append(sch.text("T"))
        nodes.append(templates.build(sn, 'em("E")')[0])
        nodes.append(templates.build(sn, 'em(strong("S"))')[0])
    except Exception:  # noqa: BLE001
        pass
    C.nodes = nodes
    marks = []
    for mname, mt in sch.marks.items():
        req = [k for k, a in mt.attrs.items() if a.is_required]
        if req:
            marks.append(mt.create({k: "foo" for k in req}))
            marks.append(mt.create({k: "bar" for k in req}))
        elif mt.attrs and sn.startswith("mx"):
            k0 = sorted(mt.attrs.keys())[0]
            marks.append(mt.create({k0: 1}))
            marks.append(mt.create({k0: 2}))
        else:
            marks.append(mt.create())
    C.marks = marks
    C.marktypes = list(sch.marks.values())
    C.textblocks = [t for t in sch.nodes.values() if t.is_textblock and not t.has_required_attrs()]
    C.wrappers = [t for t in sch.nodes.values() if not t.is_leaf and not t.is_textblock and t.name != sch.top_node_type.name
                  and not t.has_required_attrs()]
    # slices for ReplaceAroundStep: wrappers with a hole (as lift / wrap / set_block_type build them)
    ras = []
    for t in sch.nodes.values():
        if t.is_leaf or t.is_text or t.has_required_attrs() or t is sch.top_node_type:
            continue
        ras.append((Slice(Fragment.from_(t.create()), 0, 0), 1))
    for expr, os_, oe, ins in (('doc(bq(p()))', 0, 0, 2), ('doc(ul(li(p())))', 0, 0, 3), ('doc(p(), p())', 1, 1, 1),
                               ('doc(bq(p()), bq(p()))', 1, 1, 1), ('doc(ul(li(p())))', 0, 0, 2)):
        try:
            d = templates.build(sn, expr)
        except Exception:  # noqa: BLE001
            continue
        ras.append((Slice(d.content, os_, oe), ins))
    ras.append((Slice.empty, 0))
    C.ras = ras
    watch_fitter()
    return C


KINDS = ["delete", "replace", "replace_with", "insert", "replace_range", "replace_range_with", "delete_range",
         "add_mark", "remove_mark", "remove_mark_type", "remove_mark_all", "split", "join", "lift", "wrap",
         "set_block_type", "set_node_markup", "set_node_attribute", "set_doc_attribute", "add_node_mark",
         "remove_node_mark"]


def xrange_of(C, kind):
    """Number of values of the third argument x for this kind."""
    if kind in ("replace", "replace_range"):
        return len(C.slices)
    if kind in ("replace_with", "insert", "replace_range_with"):
        return len(C.nodes)
    if kind in ("add_mark", "remove_mark", "add_node_mark", "remove_node_mark"):
        return max(1, len(C.marks))
    if kind == "remove_mark_type":
        return max(1, len(C.marktypes))
    if kind in ("split", "join"):
        return 3
    if kind == "wrap":
        return max(1, len(C.wrappers))
    if kind in ("set_block_type", "set_node_markup"):
        return max(1, len(C.textblocks))
    if kind in ("set_node_attribute", "set_doc_attribute"):
        return 3
    return 1


def uses_b(kind):
    return kind in ("delete", "replace", "replace_with", "replace_range", "replace_range_with", "delete_range",
                    "add_mark", "remove_mark", "remove_mark_type", "remove_mark_all", "lift", "wrap", "set_block_type")


FIT_BUDGET = 4000     # calls/back-edges inside transform/replace.py per operation; measured maximum over the whole
                      # catalogue on the reference tree: 154.  A fitter that does not terminate becomes StepBudgetExceeded.


def watch_fitter():
    import inspect

    import prosemirror.transform.replace as R
    from engine import stepbudget
    fns = [f for _n, f in inspect.getmembers(R.Fitter, inspect.isfunction)]
    fns += [R.replace_step, R.fits_trivially, R.drop_from_fragment, R.add_to_fragment, R.content_at, R.close_node_start,
            R.content_after_fits, R.close_fragment, R.covered_depths]
    stepbudget.watch(*fns)


class Skip(Exception):
    """The operation's own precondition (helper approval, payload availability) does not hold."""


def run_op(C, tr, kind, a, b, x):
    """Performs one operation on the Transform under the fitter step budget; may raise whatever the library raises."""
    from engine import stepbudget
    with stepbudget.budget(FIT_BUDGET):
        return _run_op(C, tr, kind, a, b, x)


def _run_op(C, tr, kind, a, b, x):
    doc = tr.doc
    if kind == "delete":
        return tr.delete(a, b)
    if kind == "replace":
        return tr.replace(a, b, C.slices[x])
    if kind == "replace_with":
        return tr.replace_with(a, b, C.nodes[x])
    if kind == "insert":
        return tr.insert(a, C.nodes[x])
    if kind == "replace_range":
        return tr.replace_range(a, b, C.slices[x])
    if kind == "replace_range_with":
        return tr.replace_range_with(a, b, C.nodes[x])
    if kind == "delete_range":
        return tr.delete_range(a, b)
    if kind == "add_mark":
        if not C.marks:
            raise Skip()
        return tr.add_mark(a, b, C.marks[x])
    if kind == "remove_mark":
        if not C.marks:
            raise Skip()
        return tr.remove_mark(a, b, C.marks[x])
    if kind == "remove_mark_type":
        if not C.marktypes:
            raise Skip()
        return tr.remove_mark(a, b, C.marktypes[x])
    if kind == "remove_mark_all":
        return tr.remove_mark(a, b, None)
    if kind == "split":
        depth = x + 1
        if not structure.can_split(doc, a, depth):
            raise Skip()
        return tr.split(a, depth)
    if kind == "join":
        depth = x + 1
        if depth != 1 or not structure.can_join(doc, a):
            raise Skip()
        return tr.join(a, depth)
    if kind == "lift":
        rng = doc.resolve(a).block_range(doc.resolve(b))
        if rng is None:
            raise Skip()
        t = structure.lift_target(rng)
        if t is None:
            raise Skip()
        return tr.lift(rng, t)
    if kind == "wrap":
        if not C.wrappers:
            raise Skip()
        rng = doc.resolve(a).block_range(doc.resolve(b))
        if rng is None:
            raise Skip()
        w = structure.find_wrapping(rng, C.wrappers[x])
        if w is None:
            raise Skip()
        return tr.wrap(rng, w)
    if kind == "set_block_type":
        if not C.textblocks:
            raise Skip()
        t = C.textblocks[x]
        return tr.set_block_type(a, b, t, {"level": 2} if t.name == "heading" else None)
    if kind == "set_node_markup":
        if not C.textblocks:
            raise Skip()
        t = C.textblocks[x]
        return tr.set_node_markup(a, t, {"level": 3} if t.name == "heading" else None)
    if kind == "set_node_attribute":
        n = doc.node_at(a)
        names = sorted(n.attrs.keys()) if n is not None and n.attrs else []
        if not names:
            raise Skip()
        return tr.set_node_attribute(a, names[0], [2, "v", None][x])
    if kind == "set_doc_attribute":
        names = sorted(doc.attrs.keys()) if doc.attrs else []
        if not names:
            raise Skip()
        return tr.set_doc_attribute(names[0], [2, "v", None][x])
    if kind == "add_node_mark":
        if not C.marks:
            raise Skip()
        return tr.add_node_mark(a, C.marks[x])
    if kind == "remove_node_mark":
        if not C.marks:
            raise Skip()
        return tr.remove_node_mark(a, C.marks[x])
    raise AssertionError(kind)
