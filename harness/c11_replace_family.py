"""C11 - replace-family edits always succeed, stay valid and keep surrounding content.

Engine E1: Transform.replace / replace_with / insert / delete / replace_range / replace_range_with /
delete_range (transform/replace.py Fitter, structure.insert_point, covered_depths, close_fragment) run
with the range ends symbolic and the inserted slice / node a symbolic catalogue index, or a slice cut at
two symbolic positions from a second document.
"""
from engine import rt
from engine.oracle.tokens import doc_tokens
from engine.oracle.valid import why_invalid
from harness import common, ops, tlib
from prosemirror.transform import Transform

PROPERTY = "C11"
BOUNDS = ("catalogue documents of the bundled/list/strict/title/fixed/docmarks/iso/table schemas; range ends symbolic "
          "in range; inserted content: every catalogue slice / node, or a slice cut at two symbolic positions from a "
          "second template (<= 12 tokens)")
ASSUMPTIONS = ["an operation that records no step (nothing fits; upstream declines the edit the same way) must leave the document untouched; the content clause is asserted when at least one step was recorded",
               "filler nodes the schemas of the catalogue can require are non-leaf (they add no text or leaf nodes)",
               "positions that split a surrogate pair are excluded"]

P = {}
C = None
SRC = None
KINDS = ["replace", "replace_with", "insert", "delete", "replace_range", "replace_range_with", "delete_range"]


def configure(p):
    global C, SRC
    P.clear()
    P.update(p)
    C = ops.payloads(common.load(p))
    SRC = common.load({"schema": p["schema"], "doc": p["src"]}) if "src" in p else None


def missing_leading(sl):
    """The slice is open at both ends through a node whose own content (as it stands in the slice) is not a valid
    prefix of its content expression, i.e. required leading children were cut off."""
    if sl is None or not sl.open_start or not sl.open_end:
        return False
    node, depth = None, 0
    frag = sl.content
    while depth < min(sl.open_start, sl.open_end) and frag.child_count == 1:
        node = frag.content[0]
        if node.is_text or node.is_leaf:
            break
        kids = [c.type.name for c in node.content.content]
        # prefix test with the spec-derived matcher: is there any way to complete `kids` to valid content?
        if not any(C.V.content_ok(node.type.name, kids + list(ext)) for ext in _EXT(node.type.name)):
            return True
        frag = node.content
        depth += 1
    return False


def _EXT(tname):
    import itertools
    names = [n for n in C.V.nodes if n != C.V.top]
    for k in range(0, 3):
        for ext in itertools.product(names, repeat=k):
            yield ext


def judge(tr, a, b, ins):
    if not tr.steps:
        # nothing could be fitted: the edit is silently declined (same as upstream) - document untouched
        return tr.doc is C.doc, "no step recorded but the document changed"
    w = why_invalid(tr.doc, C.V)
    if w:
        return False, "result invalid: " + w
    w = tlib.preservation(C, tr.doc, a, b, ins)
    if w:
        return False, w
    if tr.doc.type is not C.doc.type:
        return False, "top node changed"
    return True, None


def ob_edit(a: int, b: int, x: int) -> bool:
    """post: _"""
    return rt.run(_edit, a, b, x)


def _edit(a, b, x):
    kind = P["kind"]
    nx = ops.xrange_of(C, kind)
    if not (0 <= a <= b <= C.size and 0 <= x < nx):
        return rt.SKIP
    if not (P.get("alo", 0) <= a < P.get("ahi", 10 ** 9)):
        return rt.SKIP
    if kind == "insert" and a != b:
        return rt.SKIP
    if C.is_split(a) or C.is_split(b):
        return rt.SKIP
    x = rt.pick(x, 0, nx - 1)
    if "xs" in P and x not in P["xs"]:
        return rt.SKIP
    tr = Transform(C.doc)
    try:
        ops.run_op(C, tr, kind, a, b, x)      # totality: any exception is a failure (rt.run)
    except ValueError as e:
        # listed open finding: a slice open on both sides through a node that lacks its required leading content
        if "contentMatchAt" in str(e) and missing_leading(C.slices[x] if kind in ("replace", "replace_range") else None) \
                and rt.known_mode("C11-open-slice-missing-leading-content"):
            return rt.fin(tr.doc is C.doc and not tr.steps, "declined edit changed the document")
        raise
    a, b = rt.pick(a, 0, C.size), rt.pick(b, 0, C.size)
    if kind in ("replace", "replace_range"):
        ins = tlib.slice_leaves_nomarks(C.slices[x])
    elif kind in ("replace_with", "insert", "replace_range_with"):
        ins = tlib.node_leaves_nomarks(C.nodes[x])
    else:
        ins = []
    ok, why = judge(tr, a, b, ins)
    return rt.fin(ok, why)


def ob_surrogate(a: int, b: int, x: int) -> bool:
    """post: _"""
    return rt.run(_surrogate, a, b, x)


def _surrogate(a, b, x):
    """Ranges with an end between the two units of a surrogate pair (excluded everywhere else)."""
    kind = P["kind"]
    nx = ops.xrange_of(C, kind)
    if not (0 <= a <= b <= C.size and 0 <= x < nx) or not (C.is_split(a) or C.is_split(b)):
        return rt.SKIP
    if kind == "insert" and a != b:
        return rt.SKIP
    x = rt.pick(x, 0, nx - 1)
    if x not in P.get("xs", [0]):
        return rt.SKIP
    tr = Transform(C.doc)
    try:
        ops.run_op(C, tr, kind, a, b, x)
    except UnicodeDecodeError:
        if rt.known_mode("C11-position-splits-surrogate-pair"):
            return rt.fin(tr.doc is C.doc and not tr.steps, "failed edit changed the document")
        raise
    w = why_invalid(tr.doc, C.V)
    return rt.fin(w is None, w)


def ob_cross(a: int, b: int, c: int, d: int) -> bool:
    """post: _"""
    return rt.run(_cross, a, b, c, d)


def _cross(a, b, c, d):
    if not (0 <= a <= b <= C.size and 0 <= c <= d <= SRC.size):
        return rt.SKIP
    if not (P.get("alo", 0) <= a < P.get("ahi", 10 ** 9)):
        return rt.SKIP
    if C.is_split(a) or C.is_split(b) or SRC.is_split(c) or SRC.is_split(d):
        return rt.SKIP
    if "b" in P and b != P["b"]:
        return rt.SKIP
    sl = SRC.doc.slice(c, d)
    tr = Transform(C.doc)
    from engine import stepbudget
    with stepbudget.budget(ops.FIT_BUDGET):
        if P["kind"] == "replace":
            tr.replace(a, b, sl)
        else:
            tr.replace_range(a, b, sl)
    a, b, c, d = rt.pick(a, 0, C.size), rt.pick(b, 0, C.size), rt.pick(c, 0, SRC.size), rt.pick(d, 0, SRC.size)
    ok, why = judge(tr, a, b, tlib.leaves_nomarks(SRC.tok[c:d]))
    return rt.fin(ok, why)


QUICK = [("list", 3), ("strict", 0), ("title", 0), ("iso", 0), ("fixed", 0)]
QUICK_DELETE = [("list", 2), ("table", 0)]


def obligations(tier, seed):
    obs = []
    T = 150 if tier == "quick" else 900
    if tier == "quick":
        parts = [{"schema": s, "doc": i} for (s, i) in QUICK]
    else:
        parts = [{"schema": s, "doc": i} for (s, i) in [("list", 2), ("list", 3), ("list", 4), ("list", 7), ("strict", 0), ("strict", 1),
                                                          ("title", 0), ("fixed", 0), ("iso", 0), ("table", 0), ("docmarks", 0), ("basic", 1)]]
    for p in parts:
        tag = "%s#%d" % (p["schema"], p["doc"])
        size = common.templates.doc(p["schema"], p["doc"]).content.size
        for kind in KINDS:
            q = dict(p, kind=kind)
            if tier == "quick":
                if kind in ("replace", "replace_range"):
                    q["xs"] = [2, 5, 8]
                elif kind != "insert" and kind not in ("delete", "delete_range"):
                    nn = len(ops.payloads(common.load(p)).nodes)
                    q["xs"] = [0, 5, 7, nn - 1]          # nn-1: text carrying two marks
            step = 3 if kind in ("delete", "delete_range", "insert") else (2 if size > 14 else 3)
            if kind in ("delete", "delete_range", "insert"):
                step = 6
            for lo in range(0, size + 1, step):
                obs.append({"name": "%s/%s/%d" % (kind, tag, lo), "fn": "ob_edit", "P": dict(q, alo=lo, ahi=lo + step), "timeout": T})
    if tier == "quick":
        for (sn, i) in QUICK_DELETE:
            size = common.templates.doc(sn, i).content.size
            for kind in ("delete", "delete_range"):
                for lo in range(0, size + 1, 4):
                    obs.append({"name": "%s/%s#%d/%d" % (kind, sn, i, lo), "fn": "ob_edit",
                                "P": {"schema": sn, "doc": i, "kind": kind, "alo": lo, "ahi": lo + 4}, "timeout": T})
    for kind in ("delete", "replace", "insert", "replace_range"):
        obs.append({"name": "surrogate/%s/list#7" % kind, "fn": "ob_surrogate",
                    "P": {"schema": "list", "doc": 7, "kind": kind, "xs": [0, 2]}, "timeout": T})
    if tier == "quick":
        # slices that are open through an isolating node down into its text (last entry of the table / iso slice catalogues)
        for (sn, i) in [("table", 0), ("iso", 1)]:
            pp = {"schema": sn, "doc": i}
            size = common.templates.doc(sn, i).content.size
            ns = common.templates.nslices(sn)
            for kind in ("replace", "replace_range"):
                for lo in range(0, size + 1, 6):
                    obs.append({"name": "%s/%s#%d-isoopen/%d" % (kind, sn, i, lo), "fn": "ob_edit",
                                "P": dict(pp, kind=kind, alo=lo, ahi=lo + 6, xs=[ns - 1]), "timeout": T})
        # include_parents slice of the bundled list schema whose list item lost its required first child (SLICES_LATE)
        for (sn, i) in [("list", 3)]:
            pp = {"schema": sn, "doc": i}
            size = common.templates.doc(sn, i).content.size
            late = common.templates.nslices(sn) + 1
            for kind in ("replace", "replace_range"):
                for lo in range(0, size + 1, 6):
                    obs.append({"name": "%s/%s#%d-lateslice/%d" % (kind, sn, i, lo), "fn": "ob_edit",
                                "P": dict(pp, kind=kind, alo=lo, ahi=lo + 6, xs=[late]), "timeout": T})
        # marked text (one and two marks) into a document that has a mark-free code block
        for (sn, i) in [("list", 4)]:
            pp = {"schema": sn, "doc": i}
            size = common.templates.doc(sn, i).content.size
            nn = len(ops.payloads(common.load(pp)).nodes)
            for kind in ("insert", "replace_with"):
                for lo in range(0, size + 1, 4):
                    obs.append({"name": "%s/%s#%d-marked/%d" % (kind, sn, i, lo), "fn": "ob_edit",
                                "P": dict(pp, kind=kind, alo=lo, ahi=lo + 4, xs=[nn - 2, nn - 1]), "timeout": T})
    cross = [("list", 0, 1)] if tier == "quick" else \
        [("list", 0, 1), ("list", 0, 7), ("strict", 0, 0), ("fixed", 0, 0)]
    for (sn, i, j) in cross:
        size = common.templates.doc(sn, i).content.size
        for kind in (("replace_range",) if tier == "quick" else ("replace", "replace_range")):
            for lo in (range(1, 5) if tier == "quick" else range(0, size + 1)):
                for bb in range(lo, size + 1):
                    obs.append({"name": "cross-%s/%s#%d<-#%d/%d-%d" % (kind, sn, i, j, lo, bb), "fn": "ob_cross",
                                "P": {"schema": sn, "doc": i, "src": j, "kind": kind, "alo": lo, "ahi": lo + 1, "b": bb},
                                "timeout": T})
    return obs
