"""C20 - document diffing terminates and reports the true first and last difference.

Engine E1 with the deterministic step budget (engine/stepbudget.py): find_diff_start/find_diff_end
of prosemirror/model/diff.py are executed on (before, after) pairs derived from a catalogue
document by one edit.  Solver variables: which edit (index into the enumerated edit list of the
template), the two compared texts (length and characters as indices into an alphabet containing an
astral character), and the start offsets passed to the functions (unbounded ints).  Partitions:
template x sharing mode (after shares every untouched sub-tree with before by identity / after is an
independently built copy / both orders).
"""
from engine import rt, stepbudget
from engine.oracle.tokens import frag_tokens, typed
from harness import common
from prosemirror.model import Fragment
from prosemirror.model import diff as diffmod

PROPERTY = "C20"
ALPH = ["a", "\U0001F600", "\U0001F601"]
BOUNDS = ("catalogue documents; one edit per pair (fresh equal copy, text change, mark change, attribute change, "
          "delete child, duplicate child) at every node of the template; compared texts of 1..3 characters over "
          "the alphabet {a, U+1F600, U+1F601} (quick: 1..2; on the first two text nodes of the template); start offsets unbounded ints (also negative); schema `at` adds an atom node that has content; step budget "
          "8*(tokens(a)+tokens(b))+64 calls/back-edges of find_diff_start/find_diff_end")
ASSUMPTIONS = ["fragments that differ by more than one edit are outside the bound (the two functions recurse child by child, so one differing child per level is the general case)"]

P = {}
C = None
EDITS = []


def paths(node, prefix=()):
    out = []
    for i, c in enumerate(node.content.content):
        out.append(prefix + (i,))
        out.extend(paths(c, prefix + (i,)))
    return out


def node_at(root, path):
    n = root
    for i in path:
        n = n.content.content[i]
    return n


def rebuild(root, path, f):
    """New root in which the child list at `path`'s parent is f(children, index); every untouched
    sub-tree is shared by identity (what an edit does)."""
    if len(path) == 1:
        kids = f(list(root.content.content), path[0])
        return root.copy(Fragment(kids))
    i = path[0]
    kids = list(root.content.content)
    kids[i] = rebuild(kids[i], path[1:], f)
    return root.copy(Fragment(kids))


def configure(p):
    global C
    P.clear()
    P.update(p)
    C = common.load(p)
    build_edits()
    stepbudget.watch(diffmod.find_diff_start, diffmod.find_diff_end)


def build_edits():
    del EDITS[:]
    sch = C.schema
    ntext = [0]
    for pa in paths(C.doc):
        n = node_at(C.doc, pa)
        EDITS.append((pa, "copy"))
        EDITS.append((pa, "delete"))
        EDITS.append((pa, "dup"))
        if n.is_text:
            ntext[0] += 1
            if ntext[0] <= P.get("ntext", 99):
                EDITS.append((pa, "text"))
        if "em" in sch.marks and (n.is_inline or C.schema_name == "docmarks"):
            EDITS.append((pa, "mark"))
        if n.type.name == "heading":
            EDITS.append((pa, "attr"))


def mk_text(k, c0, c1, c2):
    return "".join(ALPH[c] for c in (c0, c1, c2)[:k])


def make_pair(e, ka, a0, a1, a2, kb, b0, b1, b2):
    pa, kind = EDITS[e]
    doc = C.doc
    n = node_at(doc, pa)
    before = doc
    if kind == "copy":
        fresh = n.__class__.from_json(C.schema, n.to_json()) if not n.is_text else C.schema.text(n.text, n.marks)
        after = rebuild(doc, pa, lambda kids, i: kids[:i] + [fresh] + kids[i + 1:])
    elif kind == "delete":
        after = rebuild(doc, pa, lambda kids, i: kids[:i] + kids[i + 1:])
    elif kind == "dup":
        after = rebuild(doc, pa, lambda kids, i: kids[:i] + [kids[i]] + kids[i:])
    elif kind == "mark":
        em = C.schema.marks["em"].create()
        ms = [m for m in n.marks if m.type.name != "em"] if any(m.type.name == "em" for m in n.marks) else \
            sorted(list(n.marks) + [em], key=lambda m: m.type.rank)
        after = rebuild(doc, pa, lambda kids, i: kids[:i] + [n.mark(ms)] + kids[i + 1:])
    elif kind == "attr":
        other = C.schema.nodes["heading"].create({"level": 5}, n.content, n.marks)
        after = rebuild(doc, pa, lambda kids, i: kids[:i] + [other] + kids[i + 1:])
    elif kind == "text":
        ta = C.schema.text(mk_text(ka, a0, a1, a2), n.marks)
        tb = C.schema.text(mk_text(kb, b0, b1, b2), n.marks)
        before = rebuild(doc, pa, lambda kids, i: kids[:i] + [ta] + kids[i + 1:])
        after = rebuild(doc, pa, lambda kids, i: kids[:i] + [tb] + kids[i + 1:])
    else:
        raise AssertionError(kind)
    return before, after


def lcp(x, y):
    k = 0
    while k < len(x) and k < len(y) and x[k] == y[k]:
        k += 1
    return k


def ob_diff(e: int, ka: int, a0: int, a1: int, a2: int, kb: int, b0: int, b1: int, b2: int,
            pos: int, posb: int) -> bool:
    """post: _"""
    return rt.run(_diff, e, ka, a0, a1, a2, kb, b0, b1, b2, pos, posb)


def _diff(e, ka, a0, a1, a2, kb, b0, b1, b2, pos, posb):
    if not (0 <= e < len(EDITS)):        # the start offsets pos / posb are arbitrary ints (also negative: they are only a base)
        return rt.SKIP
    if not (P.get("elo", 0) <= e < P.get("ehi", len(EDITS))):
        return rt.SKIP
    e = rt.pick(e, 0, len(EDITS) - 1)
    kmax = P.get("kmax", 2)
    na = len(ALPH)
    if EDITS[e][1] == "text":
        if not (1 <= ka <= kmax and 1 <= kb <= kmax):
            return rt.SKIP
        for c in (a0, a1, a2, b0, b1, b2):
            if not (0 <= c < na):
                return rt.SKIP
        # unused character slots are pinned so that equal texts are not explored twice
        if (ka < 3 and a2 != 0) or (ka < 2 and a1 != 0) or (kb < 3 and b2 != 0) or (kb < 2 and b1 != 0):
            return rt.SKIP
        ka, kb = rt.pick(ka, 1, kmax), rt.pick(kb, 1, kmax)
        a0, a1, a2, b0, b1, b2 = [rt.pick(c, 0, na - 1) for c in (a0, a1, a2, b0, b1, b2)]
    else:
        if not (ka == 1 and kb == 1 and a0 == 0 and a1 == 0 and a2 == 0 and b0 == 0 and b1 == 0 and b2 == 0):
            return rt.SKIP
    with rt.untraced():
        before, after = make_pair(e, ka, a0, a1, a2, kb, b0, b1, b2)
        mode = P["mode"]
        if mode == "fresh":
            after = after.__class__.from_json(C.schema, after.to_json())
        elif mode == "swapped":
            before, after = after, before
        fa, fb = before.content, after.content
        ta, tb = typed(frag_tokens(fa)), typed(frag_tokens(fb))
        budget = 8 * (len(ta) + len(tb)) + 64
        k = lcp(ta, tb)
        ks = lcp(ta[::-1], tb[::-1])
        equal = ta == tb
    # ---- real code, symbolic start offsets, under the step budget ---------------------------
    with stepbudget.budget(budget):
        s0 = fa.find_diff_start(fb)
        s1 = fa.find_diff_start(fb, pos)
        e0 = fa.find_diff_end(fb)
        e1 = fa.find_diff_end(fb, pos, posb)
    if equal:
        ok = s0 is None and s1 is None and e0 is None and e1 is None
        return rt.fin(ok, "equal fragments must give None: %r %r %r %r" % (s0, s1, e0, e1))
    ok = s0 == k and s1 == pos + k
    ok = ok and e0 == {"a": len(ta) - ks, "b": len(tb) - ks} and e1 == {"a": pos - ks, "b": posb - ks}
    return rt.fin(ok, "start %r want %r; end %r want %r" % (s0, k, e0, (len(ta) - ks, len(tb) - ks)))


def obligations(tier, seed):
    obs = []
    if tier == "quick":
        parts = [{"schema": "list", "doc": 7}, {"schema": "list", "doc": 1}, {"schema": "list", "doc": 3},
                 {"schema": "basic", "doc": 1}, {"schema": "docmarks", "doc": 0}, {"schema": "at", "doc": 0}]
        kmax = 2
    else:
        parts = [{"schema": sn, "doc": i} for (sn, i) in [("list", 1), ("list", 3), ("list", 5), ("list", 7), ("list", 11), ("basic", 1),
                                                          ("strict", 1), ("table", 0), ("docmarks", 0), ("iso", 3), ("at", 0), ("at", 1)]]
        kmax = 3
    T = 150 if tier == "quick" else 900
    for p in parts:
        global C
        P.clear()
        P.update(dict(p, ntext=2))
        C = common.load(p)
        build_edits()
        ne = len(EDITS)
        nchunk = 4 if tier == "quick" else 8
        step = (ne + nchunk - 1) // nchunk
        for mode in ("shared", "fresh", "swapped"):
            for lo in range(0, ne, step):
                q = dict(p, mode=mode, kmax=kmax, elo=lo, ehi=lo + step, ntext=2)
                obs.append({"name": "diff/%s#%d/%s/%d" % (p["schema"], p["doc"], mode, lo), "fn": "ob_diff", "P": q, "timeout": T})
    return obs
