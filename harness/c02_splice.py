"""C02 - replacing a range is exactly a splice of the flat token sequence.

Engine E1: Node.slice / Node.cut / Node.replace (model/replace.py, fragment.py, resolvedpos.py) run
with both positions (and the slice choice, or the cut positions of a second document) as solver
integers; results are compared token by token with TOK[:a] + slice tokens + TOK[b:].
"""
from engine import rt
from engine.oracle.tokens import (doc_tokens, frag_tokens, no_adjacent_mergeable_text, slice_tokens,
                                  splits_surrogate, unmatched)
from engine.oracle.valid import why_invalid
from harness import common
from prosemirror.model import ReplaceError, Slice

PROPERTY = "C02"
BOUNDS = ("catalogue documents (<= 25 tokens) with both positions symbolic (in [-2, size+2] where errors are "
          "asserted); slices: symbolic index into the schema's slice catalogue (closed, open on either/both sides, "
          "deep, zero-width-with-structure, astral) or cut at two symbolic positions from a second template "
          "(templates <= 12 tokens)")
ASSUMPTIONS = ["positions that split a surrogate pair may raise UnicodeDecodeError (a ValueError) and are excluded",
               "a replace that raises ReplaceError is accepted wherever it happens, except for re-inserting a slice where it was cut"]

P = {}
C = None
SRC = None
SL = []


def configure(p):
    global C, SRC
    P.clear()
    P.update(p)
    C = common.load(p)
    del SL[:]
    for i in range(common.templates.nslices(C.schema_name)):
        SL.append(common.templates.slice_(C.schema_name, i))
    SRC = common.load({"schema": p["schema"], "doc": p["src"]}) if "src" in p else None


def in_chunk(a):
    return P.get("alo", -10) <= a < P.get("ahi", 10 ** 9)


def ob_slice(a: int, b: int) -> bool:
    """post: _"""
    return rt.run(_slice, a, b)


def _slice(a, b):
    doc, tok = C.doc, C.tok
    if not (-2 <= a <= C.size + 2 and -2 <= b <= C.size + 2) or not in_chunk(a):
        return rt.SKIP
    if 0 <= a <= C.size and 0 <= b <= C.size and (C.is_split(a) or C.is_split(b)):
        return rt.SKIP
    got = {}
    try:
        sl = doc.slice(a, b)
        sp = doc.slice(a, b, True)
        ct = doc.cut(a, b)
    except ValueError:
        sl = None
        got["raises"] = True
    a, b = rt.pick(a, -2, C.size + 2), rt.pick(b, -2, C.size + 2)
    with rt.untraced():
        valid_range = 0 <= a <= b <= C.size
        if valid_range:
            rng = tok[a:b]
            closes, opens = unmatched(rng)
            st = C.pm.stack(a)
            want = dict(tokens=rng, size=b - a, open=(closes, opens),
                        left=[tok[i] for i in st[len(st) - closes:]] if closes else [],
                        ptokens=rng, popen=(C.pm.depth(a), C.pm.depth(b)) if a != b else (0, 0),
                        cut=rng, cutsize=(len(rng) + C.pm.depth(a) + C.pm.depth(b)) if a != b else 0)
            cstrip = (C.pm.depth(a), C.pm.depth(b)) if a != b else (0, 0)
    if not valid_range:
        if a > b and 0 <= a <= C.size and 0 <= b <= C.size:
            return rt.SKIP          # from > to inside the document: not in the quantifier
        if a == b:
            return rt.SKIP          # an empty range yields the empty slice without a range check (as upstream)
        return rt.fin(got == {"raises": True}, "out-of-range slice must raise ValueError: %r" % (got,))
    if sl is None:
        return rt.fin(False, "slice raised ValueError for a valid range")
    ft = frag_tokens(sl.content)
    got = dict(tokens=slice_tokens(sl), size=sl.size, open=(sl.open_start, sl.open_end),
               left=ft[:sl.open_start], ptokens=slice_tokens(sp), popen=(sp.open_start, sp.open_end))
    ctk = frag_tokens(ct.content)
    got["cut"] = ctk[cstrip[0]: len(ctk) - cstrip[1]]
    got["cutsize"] = ct.content.size
    return rt.fin(got == want, rt.first_diff(got, want))


def check_replaced(r, a, b, sl, exc):
    """Common expectation for doc.replace(a, b, sl) with concrete a <= b in range."""
    tok = C.tok
    if r is None:
        return exc == "ReplaceError", "replace raised %s" % exc
    want = tok[:a] + slice_tokens(sl) + tok[b:]
    got = doc_tokens(r)
    if got != want:
        return False, "tokens differ: got %r want %r" % (got, want)
    if r.content.size != C.size + sl.size - (b - a):
        return False, "size"
    w = why_invalid(r, C.V)
    if w:
        return False, "returned an invalid document: " + w
    if not no_adjacent_mergeable_text(r):
        return False, "adjacent same-markup text not merged"
    if r.type is not C.doc.type or r.attrs != C.doc.attrs:
        return False, "top node markup changed"
    return True, None


def ob_replace(a: int, b: int, si: int) -> bool:
    """post: _"""
    return rt.run(_replace, a, b, si)


def _replace(a, b, si):
    doc, tok = C.doc, C.tok
    if not (0 <= a <= b <= C.size and 0 <= si < len(SL)) or not in_chunk(a):
        return rt.SKIP
    if C.is_split(a) or C.is_split(b):
        return rt.SKIP
    if "si" in P and si != P["si"]:
        return rt.SKIP
    si = rt.pick(si, 0, len(SL) - 1)
    sl = SL[si]
    r, exc = None, None
    try:
        r = doc.replace(a, b, sl)
    except ReplaceError:
        exc = "ReplaceError"
    a, b = rt.pick(a, 0, C.size), rt.pick(b, 0, C.size)
    ok, why = check_replaced(r, a, b, sl, exc)
    return rt.fin(ok, why)


def ob_reinsert(a: int, b: int) -> bool:
    """post: _"""
    return rt.run(_reinsert, a, b)


def _reinsert(a, b):
    doc, tok = C.doc, C.tok
    if not (0 <= a <= b <= C.size) or not in_chunk(a):
        return rt.SKIP
    if C.is_split(a) or C.is_split(b):
        return rt.SKIP
    r = doc.replace(a, b, doc.slice(a, b))          # must not raise
    ok = r.eq(doc) and doc.eq(r)
    a, b = rt.pick(a, 0, C.size), rt.pick(b, 0, C.size)
    ok = ok and doc_tokens(r) == tok
    # deleting the range is the empty splice
    try:
        d = doc.replace(a, b, Slice.empty)
        ok2, why = check_replaced(d, a, b, Slice.empty, None)
        ok = ok and ok2
    except ReplaceError:
        pass
    return rt.fin(ok, "re-inserting a slice where it was cut")


def ob_cross(a: int, b: int, c: int, d: int) -> bool:
    """post: _"""
    return rt.run(_cross, a, b, c, d)


def _cross(a, b, c, d):
    doc, tok = C.doc, C.tok
    if not (0 <= a <= b <= C.size and 0 <= c <= d <= SRC.size) or not in_chunk(a):
        return rt.SKIP
    if "b" in P and b != P["b"]:
        return rt.SKIP
    if C.is_split(a) or C.is_split(b) or SRC.is_split(c) or SRC.is_split(d):
        return rt.SKIP
    sl = SRC.doc.slice(c, d)
    r, exc = None, None
    try:
        r = doc.replace(a, b, sl)
    except ReplaceError:
        exc = "ReplaceError"
    a, b, c, d = rt.pick(a, 0, C.size), rt.pick(b, 0, C.size), rt.pick(c, 0, SRC.size), rt.pick(d, 0, SRC.size)
    ok, why = check_replaced(r, a, b, sl, exc)
    if ok and slice_tokens(sl) != SRC.tok[c:d]:
        ok, why = False, "slice tokens"
    return rt.fin(ok, why)


QUICK = [("list", 7), ("list", 1), ("list", 13), ("strict", 1), ("fixed", 0), ("iso", 0)]
CROSS_QUICK = [("list", 0, 1)]


def obligations(tier, seed):
    obs = []
    T = 150 if tier == "quick" else 900
    if tier == "quick":
        parts = [{"schema": s, "doc": i} for (s, i) in QUICK]
        cross = CROSS_QUICK
    else:
        parts = common.doc_partitions([s for s in common.templates.DOCS if not s.startswith("mx")] + ["mx6"], tier)
        cross = []
        for sn in ("list", "basic", "strict", "title", "fixed", "iso", "table"):
            small = [i for i in range(len(common.templates.docs(sn))) if common.templates.doc(sn, i).content.size <= 13]
            for i in small[:3]:
                for j in small[:2]:
                    cross.append((sn, i, j))
    for p in parts:
        tag = "%s#%d" % (p["schema"], p["doc"])
        size = common.templates.doc(p["schema"], p["doc"]).content.size
        ns = common.templates.nslices(p["schema"])
        step = 5 if size > 12 else 8
        for lo in range(-2, size + 3, step):
            q = dict(p, alo=lo, ahi=lo + step)
            obs.append({"name": "slice/%s/%d" % (tag, lo), "fn": "ob_slice", "P": q, "timeout": T})
        for lo in range(0, size + 1, step):
            q = dict(p, alo=lo, ahi=lo + step)
            obs.append({"name": "reinsert/%s/%d" % (tag, lo), "fn": "ob_reinsert", "P": q, "timeout": T})
        for si in range(ns):
            for lo in range(0, size + 1, 2 * step):
                q = dict(p, alo=lo, ahi=lo + 2 * step, si=si)
                obs.append({"name": "replace/%s/s%d/%d" % (tag, si, lo), "fn": "ob_replace", "P": q, "timeout": T})
    for (sn, i, j) in cross:
        size = common.templates.doc(sn, i).content.size
        tk = doc_tokens(common.templates.doc(sn, i))
        for lo in range(0, size + 1):
            if splits_surrogate(tk, lo):
                continue
            q = {"schema": sn, "doc": i, "src": j, "alo": lo, "ahi": lo + 1}
            obs.append({"name": "cross/%s#%d<-#%d/%d" % (sn, i, j, lo), "fn": "ob_cross", "P": q, "timeout": T})
    return obs
