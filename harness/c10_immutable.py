"""C10 - documents and their parts are immutable values.

Engine E1, one inductive step per operation: the live set (template document, catalogue slices, nodes and
marks, a step and its map, the prefix of a Transform, the shared singletons) is snapshotted as JSON, ONE library
operation runs with symbolic arguments, and every snapshot must be unchanged; of the two accumulators only the
Transform's steps/docs/maps/doc (resp. the appended-to Mapping) may change, and only by appending.
"""
import json

from engine import rt
from harness import common, opcheck, ops
from prosemirror.model import Fragment, Mark, Slice
from prosemirror.model.to_dom import DOMSerializer
from prosemirror.transform import Mapping, ReplaceStep, StepMap, Transform

PROPERTY = "C10"
BOUNDS = ("catalogue documents of the list/strict/iso schemas; 21 Transform operation kinds and 27 model/step/mapping/"
          "serialisation operations, each with symbolic integer arguments; live set = template, slice/node/mark "
          "catalogues, one step with its map, Transform prefix, singletons")
ASSUMPTIONS = ["sequences of operations follow by induction (no operation keeps hidden state besides the two accumulators); not discharged by the solver",
               "DOM parsing (lxml) is exercised on realised inputs only and not part of the claim"]

P = opcheck.P
LIVE = {}


def snap(C, tr=None, n0=None):
    """Snapshot of the live set.  Everything in it is concrete (template, catalogues, the Transform's entries that
    existed before the operation), so it is taken outside CrossHair's tracing; if an operation had planted a
    symbolic value in a live object the untraced access fails and the traced variant is used."""
    try:
        with rt.untraced():
            return _snap(C, tr, n0)
    except BaseException as e:  # noqa: BLE001
        if type(e).__name__ != "CrossHairInternal":
            raise
    return _snap(C, tr, n0)


def _snap(C, tr, n0):
    s = {
        "doc": json.dumps(C.doc.to_json(), sort_keys=True),
        "doc_kids": [id(c) for c in C.doc.content.content],
        "slices": [json.dumps(sl.to_json(), sort_keys=True) for sl in C.slices],
        "nodes": [json.dumps(n.to_json(), sort_keys=True) for n in C.nodes],
        "marks": [json.dumps(m.to_json(), sort_keys=True) for m in C.marks],
        "mark_attr_ids": [id(m.attrs) for m in C.marks],
        "empty": (Fragment.empty.content == [], Fragment.empty.size, Mark.none == [], Slice.empty.content is Fragment.empty,
                  Slice.empty.open_start, Slice.empty.open_end, StepMap.empty.ranges == [], StepMap.empty.inverted),
        "step": json.dumps(LIVE["step"].to_json(), sort_keys=True),
        "map": list(LIVE["map"].ranges),
        "mapping": [list(m.ranges) for m in LIVE["mapping"].maps],
        "mirrored": ([list(m.ranges) for m in LIVE["mirrored"].maps], list(LIVE["mirrored"].mirror or []), LIVE["mirrored"].from_, LIVE["mirrored"].to),
    }
    if tr is not None:
        n0 = len(tr.steps) if n0 is None else n0
        s["tr_docs"] = [id(d) for d in tr.docs[:n0]]
        s["tr_steps"] = [id(x) for x in tr.steps[:n0]]
        s["tr_maps"] = [(id(m), list(m.ranges)) for m in tr.mapping.maps[:n0]]
        s["tr_docs_json"] = [json.dumps(d.to_json(), sort_keys=True) for d in tr.docs[:n0]]
        s["tr_steps_json"] = [json.dumps(x.to_json(), sort_keys=True) for x in tr.steps[:n0]]
    return s


def diff(a, b, prefix_keys=()):
    for k in a:
        if k in prefix_keys:
            if b[k][:len(a[k])] != a[k]:
                return "%s: recorded history was rewritten" % k
        elif a[k] != b[k]:
            return "%s changed: %r -> %r" % (k, a[k], b[k])
    return None


def make_live(C):
    LIVE["step"] = ReplaceStep(1, 1, C.slices[0])
    LIVE["map"] = LIVE["step"].get_map()
    LIVE["mapping"] = Mapping([LIVE["map"], StepMap([0, 1, 2])])
    mm = Mapping()
    mm.append_map(StepMap([1, 2, 0]))
    mm.append_map(StepMap([1, 0, 2]), 0)
    LIVE["mirrored"] = mm
    LIVE["ser"] = DOMSerializer.from_schema(C.schema) if C.schema_name in ("list", "basic") else None


def judge(phase, tr, pre, n0, raised, ctx):
    C = opcheck.CTX["C"]
    if phase == "before":
        return snap(C, tr)
    after = snap(C, tr, n0)
    w = diff(ctx, after)
    if w:
        return w
    if len(tr.steps) < n0 or len(tr.docs) != len(tr.steps) or len(tr.mapping.maps) != len(tr.steps):
        return "accumulator shrank or misaligned"
    return None


def configure(p):
    C = opcheck.setup(p, judge, True)
    make_live(C)
    opcheck.CTX["fresh"] = True
    opcheck.CTX["on_refresh"] = make_live


def ob_op(a: int, b: int, x: int) -> bool:
    """post: _"""
    return rt.run(opcheck.body, a, b, x)


def model_ops(C):
    d = C.doc
    st, mp, mg = LIVE["step"], LIVE["map"], LIVE["mapping"]
    return [
        ("slice", lambda a, b, x: d.slice(a, b)),
        ("cut", lambda a, b, x: d.cut(a, b)),
        ("replace", lambda a, b, x: d.replace(a, b, C.slices[x % len(C.slices)])),
        ("resolve", lambda a, b, x: (d.resolve(a).marks(), d.resolve(a).block_range(d.resolve(b)), d.resolve(a).node_before, d.resolve(a).node_after)),
        ("marks_across", lambda a, b, x: (d.resolve(a).marks_across(d.resolve(b)), d.resolve(b).marks_across(d.resolve(a)), d.range_has_mark(a, b, C.marks[0]) if C.marks else None)),
        ("nodes_between", lambda a, b, x: d.nodes_between(a, b, lambda *k: None)),
        ("text_between", lambda a, b, x: d.text_between(a, b, "|")),
        ("node_at", lambda a, b, x: (d.node_at(a), d.child_after(0), d.child_before(d.content.size))),
        ("frag_append", lambda a, b, x: d.content.append(C.slices[x % len(C.slices)].content)),
        ("frag_cut_by_index", lambda a, b, x: d.content.cut_by_index(0, 1).add_to_end(C.nodes[x % len(C.nodes)]).add_to_start(C.nodes[0])),
        ("replace_child", lambda a, b, x: d.content.replace_child(0, C.nodes[x % len(C.nodes)])),
        ("mark_add", lambda a, b, x: C.marks[x % len(C.marks)].add_to_set(list(C.marks[:1])) if C.marks else None),
        ("mark_node", lambda a, b, x: C.nodes[0].mark(C.marks[:1]) if C.marks else None),
        ("step_apply", lambda a, b, x: ReplaceStep(a, b, C.slices[x % len(C.slices)]).apply(d)),
        ("step_invert", lambda a, b, x: ReplaceStep(a, b, C.slices[x % len(C.slices)]).invert(d).apply(d)),
        ("step_map", lambda a, b, x: st.map(StepMap([a, 0, b]))),
        ("step_merge", lambda a, b, x: st.merge(ReplaceStep(a, b, C.slices[x % len(C.slices)]))),
        ("step_json", lambda a, b, x: st.to_json()["slice"]["content"].append(1)),
        ("map_ops", lambda a, b, x: (mp.map(a), mp.map_result(b, -1), mp.invert().map(a), mp.for_each(lambda *k: None))),
        ("mapping_read", lambda a, b, x: (mg.map(a), mg.map_result(b, -1), mg.slice(0, 1).map(a), mg.invert().map(b), mg.copy().append_map(StepMap([a, 0, 1])))),
        ("mapping_append", lambda a, b, x: Mapping().append_mapping(mg)),
        ("mapping_copy_mirror", lambda a, b, x: (LIVE["mirrored"].copy().append_map(StepMap([2, 0, 1]), 1), LIVE["mirrored"].slice(0, 1).copy().append_map(StepMap([3, 1, 0]), 0),
                                                 LIVE["mirrored"].invert().append_map(StepMap([1, 1, 1]), 0), Mapping().append_mapping(LIVE["mirrored"]),
                                                 Mapping([StepMap([0, 0, 1])]).append_mapping_inverted(LIVE["mirrored"]), LIVE["mirrored"].map(2), LIVE["mirrored"].map_result(1, -1))),
        ("json_mutate", lambda a, b, x: (d.to_json()["content"].append(1), C.nodes[x % len(C.nodes)].to_json().update(attrs=1),
                                         [m.to_json()["attrs"].update(zz=1) for m in C.marks])),
        ("check_eq", lambda a, b, x: (d.check(), d.eq(d.copy(d.content)), d.content.find_diff_start(d.content.cut(0, a)))),
        # appending to a SLICE of a mapping is appending to the slice, not to the mapping it was cut from
        ("mapping_slice_append", lambda a, b, x: (mg.slice(0, 1).append_map(StepMap([a, 0, 1])), mg.slice(x % 3).append_map(StepMap([b, 1, 0])),
                                                  LIVE["mirrored"].slice(0).append_map(StepMap([1, 0, 1]), 0),
                                                  LIVE["mirrored"].slice(1, 2).append_mapping(mg))),
        ("to_dom", lambda a, b, x: str(LIVE["ser"].serialize_fragment(d.content)) if LIVE["ser"] else None),
    ]


def ob_model(a: int, b: int, x: int, k: int) -> bool:
    """post: _"""
    return rt.run(_model, a, b, x, k)


def _model(a, b, x, k):
    C = opcheck.refresh()
    mo = model_ops(C)
    if not (0 <= a <= b <= C.size and 0 <= x < 4 and 0 <= k < len(mo)):
        return rt.SKIP
    if "k" in P and k != P["k"]:
        return rt.SKIP
    if C.is_split(a) or C.is_split(b):
        return rt.SKIP
    k, x = rt.pick(k, 0, len(mo) - 1), rt.pick(x, 0, 3)
    before = snap(C)
    mlen = len(LIVE["mapping"].maps)
    try:
        mo[k][1](a, b, x)
    except ValueError:
        pass
    after = snap(C)
    w = diff(before, after)
    if w is None and len(LIVE["mapping"].maps) != mlen:
        w = "a mapping that was only read changed"
    return rt.fin(w is None, "%s: %s" % (mo[k][0], w))


QUICK = [("list", 1), ("strict", 0)]


def obligations(tier, seed):
    T = 200 if tier == "quick" else 900
    obs = opcheck.op_obligations("quick" if tier == "quick" else "explicit", QUICK if tier == "quick" else
                                 [("list", 1), ("list", 5), ("list", 3), ("strict", 0), ("iso", 0)], ops.KINDS, [], T,
                                 xs_quick=2 if tier == "quick" else 99, step_quick=5 if tier == "quick" else 3)
    for (sn, i) in ([("list", 1), ("list", 5)] if tier == "quick" else [("list", j) for j in (1, 3, 5, 7, 11)] + [("strict", 0), ("iso", 0)]):
        C = ops.payloads(common.load({"schema": sn, "doc": i}))
        make_live(C)
        for k in range(len(model_ops(C))):
            obs.append({"name": "model/%s#%d/%s" % (sn, i, model_ops(C)[k][0]), "fn": "ob_model",
                        "P": {"schema": sn, "doc": i, "kind": "delete", "k": k}, "timeout": T})
    return obs
