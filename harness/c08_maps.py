"""C08 - position maps and mappings obey the documented mapping algebra.

Engine E1 (CrossHair): the real StepMap/Mapping code of prosemirror/transform/map.py is executed
with the range integers, the position(s), the association side and slice bounds as solver
variables (unbounded non-negative integers unless stated); the number of ranges/maps and the
mirror pattern are partitions.  Engine E2c (z3, QF_BVFP): the float lemma that licenses reading
make_recover/recover_offset as integer arithmetic.
"""
from engine import rt
from engine.oracle.mapping import norm, ref_compose, ref_find, ref_for_each, ref_map
from prosemirror.transform.map import Mapping, MapResult, StepMap

PROPERTY = "C08"
BOUNDS = ("step maps with 0..3 ranges, each range (start gap, old, new) three unbounded non-negative ints; "
          "positions unbounded ints >= 0; assoc in {-1, 1}; mappings of 2..4 maps with <= 2 ranges; "
          "recover offsets < 2^36 (float lemma)")
ASSUMPTIONS = [
    "deletion-flag and for_each/map consistency laws are asserted for positions not on a boundary shared by two adjacent ranges (upstream: first matching range decides)",
    "mirror round trip asserted for maps without degenerate (s,0,0) ranges (same behaviour as upstream JavaScript)",
]

P = {}


def configure(p):
    P.clear()
    P.update(p)


def symbolic_setup():
    """Integer models of the three float helpers (licensed by the fp_lemma obligation)."""
    import prosemirror.transform.map as M
    from engine import fp_lemma
    for k, f in fp_lemma.int_models().items():
        setattr(M, k, f)


def direct_fp_lemma(p):
    from engine import fp_lemma
    return fp_lemma.run()


def replay_fp_lemma(p, ce):
    from engine import fp_lemma
    return fp_lemma.replay(ce)


def mk_ranges(k, v):
    """k ranges from 9 symbolic ints: start gaps g_i >= 0, sizes >= 0."""
    r = []
    cur = 0
    for i in range(k):
        g, o, n = v[3 * i], v[3 * i + 1], v[3 * i + 2]
        s = cur + g
        r.extend([s, o, n])
        cur = s + o
    return r


def nonneg(*v):
    for x in v:
        if x < 0:
            return False
    return True


# --------------------------------------------------------------------------------------------
def ob_map_ref(g0: int, o0: int, n0: int, g1: int, o1: int, n1: int, g2: int, o2: int, n2: int,
               inverted: bool, pos: int, up: bool) -> bool:
    """post: _"""
    return rt.run(_map_ref, g0, o0, n0, g1, o1, n1, g2, o2, n2, inverted, pos, up)


def _map_ref(g0, o0, n0, g1, o1, n1, g2, o2, n2, inverted, pos, up):
    if not nonneg(g0, o0, n0, g1, o1, n1, g2, o2, n2, pos):
        return rt.SKIP
    k = P["k"]
    assoc = 1 if up else -1
    ranges = mk_ranges(k, [g0, o0, n0, g1, o1, n1, g2, o2, n2])
    if inverted:
        # an inverted map's stored starts are the forward map's: any triple list is legal
        pass
    m = StepMap(ranges, inverted)
    want = ref_map(ranges, inverted, pos, assoc)
    got = m.map(pos, assoc)
    r = m.map_result(pos, assoc)
    ok = got == want and r.pos == want and isinstance(r, MapResult)
    # default association side is +1
    if up:
        ok = ok and m.map(pos) == want
    # double inversion maps identically; invert flips the flag and shares nothing mutable it changes
    mi = m.invert().invert()
    ok = ok and mi.map(pos, assoc) == want and ranges == m.ranges
    return rt.fin(ok, "map == reference")


def ob_monotone(g0: int, o0: int, n0: int, g1: int, o1: int, n1: int, g2: int, o2: int, n2: int,
                inverted: bool, pos: int, d: int, up: bool) -> bool:
    """post: _"""
    return rt.run(_monotone, g0, o0, n0, g1, o1, n1, g2, o2, n2, inverted, pos, d, up)


def _monotone(g0, o0, n0, g1, o1, n1, g2, o2, n2, inverted, pos, d, up):
    if not nonneg(g0, o0, n0, g1, o1, n1, g2, o2, n2, pos, d):
        return rt.SKIP
    k = P["k"]
    assoc = 1 if up else -1
    m = StepMap(mk_ranges(k, [g0, o0, n0, g1, o1, n1, g2, o2, n2]), inverted)
    a = m.map(pos, assoc)
    b = m.map(pos + d, assoc)
    lo = m.map(pos, -1)
    hi = m.map(pos, 1)
    return rt.fin(a <= b and lo <= hi and a >= 0, "monotone")


def ob_flags(g0: int, o0: int, n0: int, g1: int, o1: int, n1: int, g2: int, o2: int, n2: int,
             inverted: bool, pos: int, up: bool) -> bool:
    """post: _"""
    return rt.run(_flags, g0, o0, n0, g1, o1, n1, g2, o2, n2, inverted, pos, up)


def _flags(g0, o0, n0, g1, o1, n1, g2, o2, n2, inverted, pos, up):
    if not nonneg(g0, o0, n0, g1, o1, n1, g2, o2, n2, pos):
        return rt.SKIP
    k = P["k"]
    assoc = 1 if up else -1
    ranges = mk_ranges(k, [g0, o0, n0, g1, o1, n1, g2, o2, n2])
    m = StepMap(ranges, inverted)
    nr = norm(ranges, inverted)
    r = m.map_result(pos, assoc)
    j = ref_find(nr, pos)
    # shared boundary of two adjacent ranges: outside the claim (see ASSUMPTIONS)
    for i in range(len(nr) - 1):
        if nr[i][0] + nr[i][1] == nr[i + 1][0] and pos == nr[i + 1][0]:
            return rt.SKIP
    if j is None:
        ok = (not r.deleted and not r.deleted_before and not r.deleted_after
              and not r.deleted_across and r.recover is None)
        return rt.fin(ok, "flags outside every range")
    s, o, n, t = nr[j]
    before = o > 0 and s < pos <= s + o       # token before pos removed
    after = o > 0 and s <= pos < s + o        # token after pos removed
    across = o > 0 and s < pos < s + o
    ok = r.deleted_across == across and r.deleted == (before if assoc < 0 else after)
    if o > 0:
        ok = ok and r.deleted_before == before and r.deleted_after == after
    elif r.deleted_before or r.deleted_after:
        # a pure insertion deletes nothing, so no flag may be set; the library reports deleted_after at the insertion point
        if pos == s and r.deleted_after and not r.deleted_before and not r.deleted and not r.deleted_across \
                and rt.known_mode("C08-insertion-reports-deleted-after"):
            pass
        else:
            ok = False
    kept_side = s if assoc < 0 else s + o
    ok = ok and ((r.recover is None) == (pos == kept_side))
    if r.recover is not None:
        inv = m.invert()
        ok = ok and inv.recover(r.recover) == pos
        # a forward-coordinates map of the inverse change recovers the same position
        fwd = []
        for (s2, o2_, n2_, t2) in nr:
            fwd.extend([t2, n2_, o2_])
        ok = ok and StepMap(fwd).recover(r.recover) == pos
        ok = ok and m.touches(pos, r.recover)
    return rt.fin(ok, "deletion flags / recover")


def ob_for_each(g0: int, o0: int, n0: int, g1: int, o1: int, n1: int, g2: int, o2: int, n2: int,
                inverted: bool) -> bool:
    """post: _"""
    return rt.run(_for_each, g0, o0, n0, g1, o1, n1, g2, o2, n2, inverted)


def _for_each(g0, o0, n0, g1, o1, n1, g2, o2, n2, inverted):
    if not nonneg(g0, o0, n0, g1, o1, n1, g2, o2, n2):
        return rt.SKIP
    k = P["k"]
    ranges = mk_ranges(k, [g0, o0, n0, g1, o1, n1, g2, o2, n2])
    m = StepMap(ranges, inverted)
    seen = []
    m.for_each(lambda a, b, c, d: seen.append((a, b, c, d)))
    ok = seen == ref_for_each(ranges, inverted)
    separated = g1 > 0 and g2 > 0
    if ok and separated:
        for (a, b, c, d) in seen:
            ok = ok and m.map(a, -1) == c and m.map(b, 1) == d
    return rt.fin(ok, "for_each ranges")


def ob_touches(g0: int, o0: int, n0: int, g1: int, o1: int, n1: int, g2: int, o2: int, n2: int,
               inverted: bool, pos: int, idx: int, off: int) -> bool:
    """post: _"""
    return rt.run(_touches, g0, o0, n0, g1, o1, n1, g2, o2, n2, inverted, pos, idx, off)


def _touches(g0, o0, n0, g1, o1, n1, g2, o2, n2, inverted, pos, idx, off):
    if not nonneg(g0, o0, n0, g1, o1, n1, g2, o2, n2, pos, idx, off) or idx > 4 or off >= 2 ** 36:
        return rt.SKIP
    k = P["k"]
    ranges = mk_ranges(k, [g0, o0, n0, g1, o1, n1, g2, o2, n2])
    m = StepMap(ranges, inverted)
    nr = norm(ranges, inverted)
    rec = idx + off * 65536
    want = idx < len(nr) and nr[idx][0] <= pos <= nr[idx][0] + nr[idx][1]
    return rt.fin(m.touches(pos, rec) == want, "touches")


# ---- mappings -------------------------------------------------------------------------------
def mk_maps(nm, v, invbits):
    """nm maps, two ranges each, from 6*nm symbolic ints."""
    maps = []
    for i in range(nm):
        x = v[6 * i: 6 * i + 6]
        maps.append((mk_ranges(P.get("kr", 2), list(x) + [0, 0, 0]), bool(invbits[i])))
    return maps


def ob_mapping_compose(a0: int, a1: int, a2: int, a3: int, a4: int, a5: int,
                       b0: int, b1: int, b2: int, b3: int, b4: int, b5: int,
                       c0: int, c1: int, c2: int, c3: int, c4: int, c5: int,
                       ia: bool, ib: bool, ic: bool, pos: int, up: bool, lo: int, hi: int) -> bool:
    """post: _"""
    return rt.run(_mapping_compose, a0, a1, a2, a3, a4, a5, b0, b1, b2, b3, b4, b5, c0, c1, c2, c3, c4, c5,
                  ia, ib, ic, pos, up, lo, hi)


def _mapping_compose(a0, a1, a2, a3, a4, a5, b0, b1, b2, b3, b4, b5, c0, c1, c2, c3, c4, c5, ia, ib, ic, pos, up, lo, hi):
    v = [a0, a1, a2, a3, a4, a5, b0, b1, b2, b3, b4, b5, c0, c1, c2, c3, c4, c5]
    nm = P["nm"]
    if "lo" in P:
        if lo != P["lo"] or hi != P["hi"]:
            return rt.SKIP
        lo, hi = P["lo"], P["hi"]
    if not nonneg(pos, *v[: 6 * nm]) or not (0 <= lo <= hi <= nm):
        return rt.SKIP
    assoc = 1 if up else -1
    maps = mk_maps(nm, v, [ia, ib, ic])
    real = [StepMap(r, inv) for (r, inv) in maps]
    op = P["op"]
    if op == "slice":
        mp = Mapping(list(real)).slice(lo, hi)
        want = ref_compose(maps[lo:hi], pos, assoc)
        ok = mp.map(pos, assoc) == want and mp.map_result(pos, assoc).pos == want
        ok = ok and Mapping(list(real)).slice(lo).map(pos, assoc) == ref_compose(maps[lo:], pos, assoc)
        cp = mp.copy()
        ok = ok and cp.map(pos, assoc) == want and cp.maps is not mp.maps
    elif op == "append_map":
        mp = Mapping()
        for m in real:
            mp.append_map(m)
        want = ref_compose(maps, pos, assoc)
        ok = mp.map(pos, assoc) == want and len(mp.maps) == nm and mp.to == nm and mp.from_ == 0
    elif op == "append_mapping":
        left = Mapping(list(real[:lo]))
        right = Mapping(list(real[lo:]))
        left.append_mapping(right)
        want = ref_compose(maps, pos, assoc)
        ok = (left.map(pos, assoc) == want and len(left.maps) == nm and left.to == nm
              and all(x is y for x, y in zip(left.maps, real)))
    elif op == "append_mapping_inverted":
        left = Mapping(list(real[:lo]))
        right = Mapping(list(real[lo:]))
        left.append_mapping_inverted(right)
        seq = maps[:lo] + [(r, not inv) for (r, inv) in reversed(maps[lo:])]
        want = ref_compose(seq, pos, assoc)
        ok = left.map(pos, assoc) == want and len(left.maps) == nm
    elif op == "invert":
        mp = Mapping(list(real)).invert()
        seq = [(r, not inv) for (r, inv) in reversed(maps)]
        want = ref_compose(seq, pos, assoc)
        ok = mp.map(pos, assoc) == want and len(mp.maps) == nm
    else:
        raise AssertionError(op)
    return rt.fin(ok, "mapping " + op)


def has_degenerate(ranges):
    for i in range(0, len(ranges), 3):
        if ranges[i + 1] == 0 and ranges[i + 2] == 0:
            return True
    return False


def fwd_inverse(ranges):
    """Ranges of the non-inverted map of the inverse change."""
    out = []
    for (s, o, n, t) in norm(ranges, False):
        out.extend([t, n, o])
    return out


def ob_mirror(a0: int, a1: int, a2: int, a3: int, a4: int, a5: int,
              b0: int, b1: int, b2: int, b3: int, b4: int, b5: int, pos: int, up: bool) -> bool:
    """post: _"""
    return rt.run(_mirror, a0, a1, a2, a3, a4, a5, b0, b1, b2, b3, b4, b5, pos, up)


def _mirror(a0, a1, a2, a3, a4, a5, b0, b1, b2, b3, b4, b5, pos, up):
    if not nonneg(a0, a1, a2, a3, a4, a5, b0, b1, b2, b3, b4, b5, pos):
        return rt.SKIP
    assoc = 1 if up else -1
    kr = P.get("kr", 2)
    ra = mk_ranges(kr, [a0, a1, a2, a3, a4, a5, 0, 0, 0])
    rb = mk_ranges(kr, [b0, b1, b2, b3, b4, b5, 0, 0, 0])
    if has_degenerate(ra) or has_degenerate(rb):
        return rt.SKIP
    pat = P["pattern"]
    style = P.get("style", "invert")   # how the mirror map is produced

    def inv_of(r):
        return StepMap(r).invert() if style == "invert" else StepMap(fwd_inverse(r))
    m1, m2 = StepMap(ra), StepMap(rb)
    if pat == "pair":                      # [m1, m1^-1]
        mp = Mapping()
        mp.append_map(m1)
        mp.append_map(inv_of(ra), 0)
        ok = mp.map(pos, assoc) == pos and mp.map_result(pos, assoc).pos == pos
    elif pat == "nested":                  # [m1, m2, m2^-1, m1^-1], mirrors (0,3) (1,2)
        mp = Mapping()
        mp.append_map(m1)
        mp.append_map(m2)
        mp.append_map(inv_of(rb), 1)
        mp.append_map(inv_of(ra), 0)
        ok = mp.map(pos, assoc) == pos
        # the same through the constructor/set_mirror and through slice/copy
        mq = Mapping([m1, m2, inv_of(rb), inv_of(ra)])
        mq.set_mirror(1, 2)
        mq.set_mirror(0, 3)
        ok = ok and mq.map(pos, assoc) == pos and mq.copy().map(pos, assoc) == pos
        ok = ok and mq.slice(1, 3).map(pos, assoc) == pos
        # a slice that ends exactly where the mirror partner of its first map sits must not jump out of the slice
        ok = ok and mq.slice(0, 3).map(pos, assoc) == ref_map(ra, False, pos, assoc)
        ok = ok and mq.get_mirror(0) == 3 and mq.get_mirror(3) == 0 and mq.get_mirror(2) == 1
    elif pat == "rebase":                  # rebasing: [m1^-1 ... , other, m1'] : invert() of a mapping is mirrored
        base = Mapping()
        base.append_map(m1)
        base.append_map(m2)
        whole = Mapping()
        whole.append_mapping(base)
        whole.append_mapping_inverted(base)   # no mirrors registered: plain composition
        seq = [(ra, False), (rb, False), (rb, True), (ra, True)]
        ok = whole.map(pos, assoc) == ref_compose(seq, pos, assoc)
        # with mirrors carried over by append_mapping / append_mapping_inverted
        src = Mapping()
        src.append_map(m1)
        src.append_map(inv_of(ra), 0)
        dst = Mapping([m2])
        dst.append_mapping(src)
        ok = ok and dst.get_mirror(1) == 2 and dst.get_mirror(2) == 1
        ok = ok and dst.slice(1).map(pos, assoc) == pos
        dsti = Mapping([m2])
        dsti.append_mapping_inverted(src)
        ok = ok and dsti.get_mirror(1) == 2 and len(dsti.maps) == 3
        inv = src.invert()
        ok = ok and inv.get_mirror(0) == 1 and len(inv.maps) == 2
    else:
        raise AssertionError(pat)
    if not ok and kr == 2 and (a3 == 0 or b3 == 0) and rt.known_mode("C08-mirror-adjacent-ranges"):
        # a map with two *adjacent* ranges (second start == first end): forward-then-back does not return
        # positions at the shared boundary / far end - listed open finding (same algorithm as upstream)
        ok = True
    return rt.fin(ok, "mirror " + pat)


def ob_empty(pos: int, up: bool, rec: int) -> bool:
    """post: _"""
    return rt.run(_empty, pos, up, rec)


def _empty(pos, up, rec):
    if pos < 0 or rec < 0:
        return rt.SKIP
    assoc = 1 if up else -1
    e = StepMap.empty
    r = e.map_result(pos, assoc)
    seen = []
    e.for_each(lambda *a: seen.append(a))
    ok = (e.map(pos, assoc) == pos and r.pos == pos and not r.deleted and r.recover is None
          and e.ranges == [] and seen == [] and e.touches(pos, rec) is False
          and e.invert().map(pos, assoc) == pos and Mapping().map(pos, assoc) == pos
          and Mapping().map_result(pos, assoc).pos == pos)
    return rt.fin(ok, "empty map")


def obligations(tier, seed):
    obs = [{"name": "fp_lemma", "fn": "direct_fp_lemma", "kind": "direct", "P": {}, "timeout": 200}]
    T = 120 if tier == "quick" else 900
    ks = [1, 2, 3]
    for k in ks:
        obs.append({"name": "map_ref/k=%d" % k, "fn": "ob_map_ref", "P": {"k": k}, "timeout": T})
        obs.append({"name": "monotone/k=%d" % k, "fn": "ob_monotone", "P": {"k": k}, "timeout": T})
        obs.append({"name": "flags/k=%d" % k, "fn": "ob_flags", "P": {"k": k}, "timeout": T})
        obs.append({"name": "for_each/k=%d" % k, "fn": "ob_for_each", "P": {"k": k}, "timeout": T})
    for k in [0, 1, 2, 3]:
        obs.append({"name": "touches/k=%d" % k, "fn": "ob_touches", "P": {"k": k}, "timeout": T})
    obs.append({"name": "empty", "fn": "ob_empty", "P": {}, "timeout": T})
    for op in ["slice", "append_map", "append_mapping", "append_mapping_inverted", "invert"]:
        for (nm, kr) in ([(2, 1)] if tier == "quick" else [(2, 1), (2, 2), (3, 1)]):
            if True:
                if op in ("slice", "append_mapping", "append_mapping_inverted"):
                    for lo in range(nm + 1):
                        for hi in (range(lo, nm + 1) if op == "slice" else [nm]):
                            obs.append({"name": "mapping/%s/nm=%d/kr=%d/lo=%d/hi=%d" % (op, nm, kr, lo, hi),
                                        "fn": "ob_mapping_compose",
                                        "P": {"op": op, "nm": nm, "kr": kr, "lo": lo, "hi": hi}, "timeout": T})
                else:
                    obs.append({"name": "mapping/%s/nm=%d/kr=%d" % (op, nm, kr), "fn": "ob_mapping_compose",
                                "P": {"op": op, "nm": nm, "kr": kr}, "timeout": T})
    for pat in ["pair", "nested", "rebase"]:
        for style in ["invert", "forward"]:
            for kr in ([1] if tier == "quick" else [1, 2]):
                obs.append({"name": "mirror/%s/%s/kr=%d" % (pat, style, kr), "fn": "ob_mirror",
                            "P": {"pattern": pat, "style": style, "kr": kr}, "timeout": T})
    for o in obs[1:]:
        o["requires"] = "fp_lemma"
    return obs
