"""C07 - validity predicates agree exactly with the schema's definition of validity.

Engine E1: Node.can_replace / can_replace_with / can_append / check, NodeType.valid_content / create_checked,
Schema.node run with child indices, fragment sub-range, candidate type index, mark bits and the choice of a
single mutation (for check) as solver variables; every answer is compared with the validator derived from
the spec dictionaries (engine/oracle/valid.py).
"""
from engine import rt
from engine.oracle.valid import valid_children, why_invalid
from harness import common, ops
from prosemirror.model import Fragment

PROPERTY = "C07"
BOUNDS = ("every non-leaf node of every catalogue document as parent; replacement fragments: the contents of the "
          "catalogue slices and nodes; child indices and fragment sub-range symbolic in range; every node type as "
          "candidate; mark sets: symbolic subsets of the schema's marks; check(): every single mutation (swap two "
          "marks, duplicate a mark, add a mark the parent forbids, insert/remove a child) at every node")
ASSUMPTIONS = ["can_append with an empty node is outside the claim (upstream answers by content-expression compatibility)",
               "indices outside [0, child count] are outside the quantifier"]

P = {}
C = None
PARENTS = []
FRAGS = []
MUTS = []


def all_nodes(node, path=()):
    out = [(path, node)]
    for i, c in enumerate(node.content.content):
        out.extend(all_nodes(c, path + (i,)))
    return out


def configure(p):
    global C
    P.clear()
    P.update(p)
    C = ops.payloads(common.load(p))
    del PARENTS[:], FRAGS[:], MUTS[:]
    for path, n in all_nodes(C.doc):
        if not n.is_leaf and not n.is_text:
            PARENTS.append(n)
    for sl in C.slices:
        FRAGS.append(sl.content)
    for n in C.nodes:
        FRAGS.append(Fragment.from_(n))
    FRAGS.append(Fragment.empty)
    # mutations for check()
    for path, n in all_nodes(C.doc):
        if len(n.marks) >= 2:
            MUTS.append((path, "swap"))
        if len(n.marks) >= 1:
            MUTS.append((path, "dup"))
        if path:
            MUTS.append((path, "addmark"))
            MUTS.append((path, "remove"))
            MUTS.append((path, "dupchild"))
        MUTS.append((path, "none"))


def ob_can_replace(pi: int, fi: int, frm: int, to: int, start: int, end: int) -> bool:
    """post: _"""
    return rt.run(_can_replace, pi, fi, frm, to, start, end)


def _can_replace(pi, fi, frm, to, start, end):
    if not (0 <= pi < len(PARENTS) and 0 <= fi < len(FRAGS)):
        return rt.SKIP
    if "pi" in P and pi != P["pi"]:
        return rt.SKIP
    pi, fi = rt.pick(pi, 0, len(PARENTS) - 1), rt.pick(fi, 0, len(FRAGS) - 1)
    par, frag = PARENTS[pi], FRAGS[fi]
    n, m = par.child_count, frag.child_count
    if not (0 <= frm <= to <= n and 0 <= start <= end <= m):
        return rt.SKIP
    got = par.can_replace(frm, to, frag, start, end)
    got_default = par.can_replace(frm, to, frag) if (start == 0 and end == m) else None
    frm, to, start, end = rt.pick(frm, 0, n), rt.pick(to, 0, n), rt.pick(start, 0, m), rt.pick(end, 0, m)
    kids = par.content.content
    ins = frag.content[start:end]
    want = C.V.content_ok(par.type.name, [c.type.name for c in kids[:frm] + ins + kids[to:]]) and \
        all(C.V.allows(par.type.name, mk.type.name) for c in ins for mk in c.marks)
    ok = got == want and (got_default is None or got_default == want)
    if ok and frm == to == n and m and start == 0 and end == m:
        # can_append of a node holding `frag`
        try:
            other = par.type.create(par.attrs, frag)
            ok = par.can_append(other) == want
        except ValueError:
            pass
    return rt.fin(ok, "can_replace(%r,%r,frag#%r,%r,%r)=%r want %r" % (frm, to, fi, start, end, got, want))


def ob_can_replace_with(pi: int, frm: int, to: int, ti: int, mbits: int) -> bool:
    """post: _"""
    return rt.run(_can_replace_with, pi, frm, to, ti, mbits)


def _can_replace_with(pi, frm, to, ti, mbits):
    types = list(C.schema.nodes.values())
    nm = len(C.marks)
    if not (0 <= pi < len(PARENTS) and 0 <= ti < len(types) and 0 <= mbits < 2 ** min(nm, 4)):
        return rt.SKIP
    if "pi" in P and pi != P["pi"]:
        return rt.SKIP
    pi, ti, mbits = rt.pick(pi, 0, len(PARENTS) - 1), rt.pick(ti, 0, len(types) - 1), rt.pick(mbits, 0, 2 ** min(nm, 4) - 1)
    par, t = PARENTS[pi], types[ti]
    n = par.child_count
    if not (0 <= frm <= to <= n):
        return rt.SKIP
    marks = [C.marks[i] for i in range(min(nm, 4)) if (mbits >> i) & 1]
    got = par.can_replace_with(frm, to, t, marks)
    got_nomarks = par.can_replace_with(frm, to, t)
    frm, to = rt.pick(frm, 0, n), rt.pick(to, 0, n)
    kids = par.content.content
    seq_ok = C.V.content_ok(par.type.name, [c.type.name for c in kids[:frm]] + [t.name] + [c.type.name for c in kids[to:]])
    want = seq_ok and all(C.V.allows(par.type.name, mk.type.name) for mk in marks)
    return rt.fin(got == want and got_nomarks == seq_ok, "can_replace_with")


def ob_valid_content(pi: int, fi: int, start: int, end: int) -> bool:
    """post: _"""
    return rt.run(_valid_content, pi, fi, start, end)


def _valid_content(pi, fi, start, end):
    """valid_content / create_checked / Schema.node on sub-ranges of catalogue fragments."""
    types = list(C.schema.nodes.values())
    if not (0 <= pi < len(types) and 0 <= fi < len(FRAGS)):
        return rt.SKIP
    pi, fi = rt.pick(pi, 0, len(types) - 1), rt.pick(fi, 0, len(FRAGS) - 1)
    t, frag = types[pi], FRAGS[fi]
    m = frag.child_count
    if t.is_text or not (0 <= start <= end <= m):
        return rt.SKIP
    sub = frag.cut_by_index(start, end)
    got = t.valid_content(sub)
    start, end = rt.pick(start, 0, m), rt.pick(end, 0, m)
    kids = frag.content[start:end]
    want = valid_children(C.V, t.name, kids)
    ok = got == want
    attrs = {k: 1 for k, a in t.attrs.items() if a.is_required} or None
    for maker in (lambda: t.create_checked(attrs, sub), lambda: C.schema.node(t, attrs, sub), lambda: C.schema.node(t.name, attrs, sub)):
        try:
            nd = maker()
            ok = ok and want and [c.type.name for c in nd.content.content] == [c.type.name for c in kids]
        except ValueError:
            ok = ok and not want
    return rt.fin(ok, "valid_content(%s, frag#%r[%r:%r]) = %r want %r" % (t.name, fi, start, end, got, want))


def mutate(doc, path, kind):
    """One structural mutation of a valid document (may or may not stay valid - the oracle decides)."""
    def rebuild(node, pth):
        if not pth:
            return change(node)
        kids = list(node.content.content)
        if len(pth) == 1 and kind in ("remove", "dupchild"):
            i = pth[0]
            kids = kids[:i] + kids[i + 1:] if kind == "remove" else kids[:i] + [kids[i]] + kids[i:]
            return node.copy(Fragment(kids))
        kids[pth[0]] = rebuild(kids[pth[0]], pth[1:])
        return node.copy(Fragment(kids))

    def change(node):
        ms = list(node.marks)
        if kind == "swap":
            ms[0], ms[1] = ms[1], ms[0]
        elif kind == "dup":
            ms = ms + [ms[-1]]
        elif kind == "addmark":
            ms = ms + [C.marks[-1]] if C.marks else ms
        else:
            return node
        return node.mark(ms)
    return rebuild(doc, path)


def ob_check(mi: int) -> bool:
    """post: _"""
    return rt.run(_check, mi)


def _check(mi):
    if not (0 <= mi < len(MUTS)):
        return rt.SKIP
    mi = rt.pick(mi, 0, len(MUTS) - 1)
    path, kind = MUTS[mi]
    doc = mutate(C.doc, path, kind)
    want = why_invalid(doc, C.V)
    try:
        doc.check()
        raised = False
    except ValueError:
        raised = True
    return rt.fin(raised == (want is not None), "check() on %s@%r: raised=%r, validator: %r" % (kind, path, raised, want))


QUICK = [("list", 2), ("list", 5), ("strict", 1), ("fixed", 1), ("table", 1), ("mx4", 1), ("docmarks", 0), ("cx", 0), ("cx", 1)]


def obligations(tier, seed):
    obs = []
    T = 150 if tier == "quick" else 900
    if tier == "quick":
        parts = [{"schema": s, "doc": i} for (s, i) in QUICK]
    else:
        parts = common.doc_partitions(list(common.templates.DOCS.keys()), tier)
    for p in parts:
        tag = "%s#%d" % (p["schema"], p["doc"])
        d = common.templates.doc(p["schema"], p["doc"])
        npar = len([1 for _p, n in all_nodes(d) if not n.is_leaf and not n.is_text])
        for pi in range(npar):
            if tier == "quick" and pi >= 4:
                break
            if not p["schema"].startswith("mx"):
                obs.append({"name": "can_replace/%s/p%d" % (tag, pi), "fn": "ob_can_replace", "P": dict(p, pi=pi), "timeout": T})
            obs.append({"name": "can_replace_with/%s/p%d" % (tag, pi), "fn": "ob_can_replace_with", "P": dict(p, pi=pi), "timeout": T})
        obs.append({"name": "valid_content/" + tag, "fn": "ob_valid_content", "P": p, "timeout": T * 2})
        obs.append({"name": "check/" + tag, "fn": "ob_check", "P": p, "timeout": T})
    return obs
