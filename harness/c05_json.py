"""C05 - JSON serialisation of documents, slices, marks and steps is lossless.

Engine E1: to_json / from_json of Node, Fragment, Slice, Mark and the eight step classes run with
attribute values, open depths and every integer field of every step as solver variables (unbounded ints,
short symbolic strings, None, one level of list/dict nesting).  The real json.dumps/json.loads is applied to
the realised value of each path (C boundary); the symbolic claim is about to_json/from_json.
"""
import json

from engine import rt
from harness import common, ops
from prosemirror.model import Fragment, Mark, Node, Slice
from prosemirror.transform import (AddMarkStep, AddNodeMarkStep, AttrStep, RemoveMarkStep, RemoveNodeMarkStep,
                                   ReplaceAroundStep, ReplaceStep, Step)
from prosemirror.transform.doc_attr_step import DocAttrStep
from prosemirror.transform.step import STEPS_BY_ID

PROPERTY = "C05"
BOUNDS = ("attribute values: unbounded ints, strings of length <= 2 (symbolic), None, and a list/dict of two such scalars; "
          "slice open depths symbolic within the content's spine; every integer field of every step unbounded; payloads "
          "from the list-schema catalogue plus two hand-built zero-size non-empty slices (<p>(1,1), <bq(p)>(2,2)); 'identical effect' compared on every list template (quick: 3)")
ASSUMPTIONS = ["json.dumps/json.loads operate on the realised value of each path",
               "float attribute values and non-string dict keys are outside the bound"]

P = {}
C = None
DOCS = []


def configure(p):
    global C
    P.clear()
    P.update(p)
    C = ops.payloads(common.load({"schema": "list", "doc": p.get("doc", 1)}))
    C.slices.extend(common.templates.raw_slices("list"))      # zero-size, non-empty slices (indices 17, 18)
    del DOCS[:]
    for i in p.get("effect_docs", [0, 1, 3]):
        DOCS.append(common.templates.doc("list", i))


def wire(j):
    """The real JSON encode/decode - on concrete self-test inputs only (P["wire"]); on symbolic paths the
    structural check plain(j) stands for it: json.loads(json.dumps(x)) == x for plain data without floats."""
    if P.get("wire"):
        return json.loads(json.dumps(j))
    return j


def plain(j):
    if j is None or isinstance(j, (str, int, float, bool)):
        return True
    if isinstance(j, list):
        return all(plain(x) for x in j)
    if isinstance(j, dict):
        return all(isinstance(k, str) and plain(v) for k, v in j.items())
    return False


def scalar(kind, i, s):
    """kind 0 int, 1 str, 2 None, 3 list of both, 4 dict of both."""
    if kind == 0:
        return i
    if kind == 1:
        return s
    if kind == 2:
        return None
    if kind == 3:
        return [i, s]
    return {"k": i, "s": s}


STRS = ["", "t", "\u00e9\"", "\U0001F600<"]


def ob_node(level: int, order: int, href: str, ti: int, kind: int, mi: int) -> bool:
    """post: _"""
    return rt.run(_node, level, order, href, ti, kind, mi)


def _node(level, order, href, ti, kind, mi):
    if not (0 <= kind <= 4 and 0 <= ti < len(STRS)) or len(href) > 2:
        return rt.SKIP
    kind, ti = rt.pick(kind, 0, 4), rt.pick(ti, 0, len(STRS) - 1)
    title = ms = alt = STRS[ti]
    sch = C.schema
    meta = scalar(kind, mi, ms)
    link = sch.marks["link"].create({"href": href, "title": (meta if kind >= 3 else (title if title else None))})
    em = sch.marks["em"].create()
    para = sch.nodes["paragraph"].create(None, [sch.text("x", [link, em]), sch.nodes["image"].create({"src": href, "alt": alt}),
                                               sch.text("y")])
    doc = sch.nodes["doc"].create({"meta": meta}, [
        sch.nodes["heading"].create({"level": level}, [sch.text("h")]),
        sch.nodes["ordered_list"].create({"order": order}, [sch.nodes["list_item"].create(None, [para])]),
    ])
    j = doc.to_json()
    ok = plain(j)
    why = "JSON is not plain data" if not ok else None
    back = Node.from_json(sch, wire(j))
    if ok and not (back.eq(doc) and doc.eq(back) and back.attrs == doc.attrs):
        ok, why = False, "decoded document differs"
    if ok and back.to_json() != j:
        ok, why = False, "re-serialised JSON differs"
    if ok and kind >= 3:
        # no aliasing of live attribute objects (on a separate serialisation)
        j2 = doc.to_json()
        if j2["attrs"]["meta"] is doc.attrs["meta"]:
            ok, why = False, "to_json aliases the live attrs value"
        else:
            if kind == 3:
                j2["attrs"]["meta"].append(1)
            else:
                j2["attrs"]["meta"]["zz"] = 1
            if doc.attrs["meta"] != meta or doc.to_json() == j2:
                ok, why = False, "mutating the JSON changed the document"
    if ok:
        fj = doc.content.to_json()
        fb = Fragment.from_json(sch, wire(fj))
        ok = fb.eq(doc.content) and fb.to_json() == fj
        why = None if ok else "fragment round trip"
    if ok:
        mj = link.to_json()
        mb = Mark.from_json(sch, wire(mj))
        ok = mb.eq(link) and mb.to_json() == mj and plain(mj) and (mj["attrs"] is not link.attrs)
        if ok and kind >= 3:
            ok = link.to_json()["attrs"]["title"] is not link.attrs["title"]
        why = None if ok else "mark round trip / alias"
    return rt.fin(ok, why)


def spine(frag, side):
    d = 0
    kids = frag.content
    while kids:
        c = kids[0] if side == 0 else kids[-1]
        if c.is_leaf or c.is_text:
            break
        d += 1
        kids = c.content.content
    return d


def ob_slice(si: int, os_: int, oe: int) -> bool:
    """post: _"""
    return rt.run(_slice, si, os_, oe)


def _slice(si, os_, oe):
    if not (0 <= si < len(C.slices)):
        return rt.SKIP
    si = rt.pick(si, 0, len(C.slices) - 1)
    frag = C.slices[si].content
    if not (0 <= os_ <= spine(frag, 0) and 0 <= oe <= spine(frag, 1)):
        return rt.SKIP
    if not frag.size and (os_ or oe):
        return rt.SKIP
    sl = Slice(frag, os_, oe)
    j = sl.to_json()
    back = Slice.from_json(C.schema, wire(j))
    ok = plain(j) and back.eq(sl) and back.to_json() == j and back.open_start == os_ and back.open_end == oe
    return rt.fin(ok, "slice round trip")


def same_step(a, b):
    if type(a) is not type(b):
        return False
    for f in ("from_", "to", "gap_from", "gap_to", "insert", "structure", "pos", "attr", "value"):
        if hasattr(a, f) != hasattr(b, f):
            return False
        if hasattr(a, f) and getattr(a, f) != getattr(b, f):
            return False
        if hasattr(a, f) and f == "structure" and type(getattr(a, f)) is not type(getattr(b, f)):
            return False
    if hasattr(a, "slice") and not a.slice.eq(b.slice):
        return False
    if hasattr(a, "mark") and not (a.mark.eq(b.mark) and a.mark.attrs == b.mark.attrs):
        return False
    return True


def outcome(step, doc):
    try:
        r = step.apply(doc)
    except Exception as e:  # noqa: BLE001 - identical effect includes identical failure
        return ("raise", type(e).__name__, None)
    if r.failed is not None:
        return ("fail", r.failed, None)
    return ("ok", None, r.doc)


def same_outcome(x, y):
    if x[0] != y[0] or x[1] != y[1]:
        return False
    return x[2] is None or (x[2].eq(y[2]) and x[2].attrs == y[2].attrs)


def ob_step(kind: int, a: int, b: int, c: int, d: int, e: int, si: int, mi: int, flag: bool, vk: int, vi: int) -> bool:
    """post: _"""
    return rt.run(_step, kind, a, b, c, d, e, si, mi, flag, vk, vi)


def _step(kind, a, b, c, d, e, si, mi, flag, vk, vi):
    if not (0 <= kind < 8 and 0 <= si < len(C.slices) and 0 <= mi < len(C.marks) and 0 <= vk <= 4 and 0 <= vi < len(STRS)):
        return rt.SKIP
    if "kind" in P and kind != P["kind"]:
        return rt.SKIP
    # pin what a kind does not use (before any pick, so no path is spent on it)
    if kind < 2 and mi != 0:
        return rt.SKIP
    if kind >= 2 and (flag or si != P.get("sis", [0])[0]):
        return rt.SKIP
    if kind < 6 and (vk != 0 or vi != 0):
        return rt.SKIP
    vi = rt.pick(vi, 0, len(STRS) - 1)
    vs = STRS[vi]
    if kind < 6 and (vk != 0 or vi != 0):
        return rt.SKIP
    if "kind" in P and kind != P["kind"]:
        return rt.SKIP
    kind, si, mi, vk = rt.pick(kind, 0, 7), rt.pick(si, 0, len(C.slices) - 1), rt.pick(mi, 0, len(C.marks) - 1), rt.pick(vk, 0, 4)
    if "sis" in P and si not in P["sis"]:
        return rt.SKIP
    sl, mk = C.slices[si], C.marks[mi]
    val = scalar(vk, e, vs)
    # pin the variables a kind does not use
    unused = {0: (c, d, e), 1: (), 2: (c, d, e), 3: (c, d, e), 4: (b, c, d, e), 5: (b, c, d, e), 6: (b, c, d), 7: (a, b, c, d)}[kind]
    for u in unused:
        if u != 0:
            return rt.SKIP
    if kind == 0:
        step = ReplaceStep(a, b, sl, flag)
    elif kind == 1:
        step = ReplaceAroundStep(a, b, c, d, sl, e, flag)
    elif kind == 2:
        step = AddMarkStep(a, b, mk)
    elif kind == 3:
        step = RemoveMarkStep(a, b, mk)
    elif kind == 4:
        step = AddNodeMarkStep(a, mk)
    elif kind == 5:
        step = RemoveNodeMarkStep(a, mk)
    elif kind == 6:
        step = AttrStep(a, ["level", "order", "zz"][mi % 3], val)
    else:
        step = DocAttrStep(["meta", "zz"][mi % 2], val)
    j = step.to_json()
    ok, why = plain(j), "step JSON is not plain data"
    names = ["replace", "replaceAround", "addMark", "removeMark", "addNodeMark", "removeNodeMark", "attr", "docAttr"]
    if ok and (j.get("stepType") != names[kind] or STEPS_BY_ID.get(names[kind]) is not type(step)):
        ok, why = False, "published step name / registry"
    back = Step.from_json(C.schema, wire(j)) if ok else None
    if ok and not same_step(step, back):
        ok, why = False, "decoded step differs: %r vs %r" % (j, back.to_json())
    if ok and back.to_json() != j:
        ok, why = False, "re-serialised step JSON differs"
    if ok and kind >= 6 and vk >= 3:
        j2 = step.to_json()              # a separate serialisation: `back` was decoded from j
        if j2["value"] is step.value:
            ok, why = False, "step JSON aliases the live value object"
        else:
            (j2["value"].append(0) if vk == 3 else j2["value"].__setitem__("q", 0))
            if step.value != val or step.to_json() == j2:
                ok, why = False, "mutating the step JSON changed the step"
    if ok and P.get("effect") is not None:
        # identical effect: positions bounded (error messages format them), one document per partition
        for x in (a, b, c, d, e):
            if not (-1 <= x <= DOCS[P["effect"]].content.size + 1):
                return rt.SKIP
        if "a" in P and a != P["a"]:
            return rt.SKIP
        if "b" in P and b != P["b"]:
            return rt.SKIP
        if kind >= 6 and not (-1 <= e <= 1):
            return rt.SKIP
        if kind == 1 and not (a <= c <= d <= b and 0 <= e):
            return rt.SKIP
        for doc in [DOCS[P["effect"]]]:
            if not same_outcome(outcome(step, doc), outcome(back, doc)):
                ok, why = False, "decoded step has a different effect"
                break
            if step.get_map().ranges != back.get_map().ranges:
                ok, why = False, "decoded step has a different map"
                break
    return rt.fin(ok, why)


def ob_registry(kind: int) -> bool:
    """post: _"""
    return rt.run(_registry, kind)


def _registry(kind):
    names = ["replace", "replaceAround", "addMark", "removeMark", "addNodeMark", "removeNodeMark", "attr", "docAttr"]
    ok = sorted(STEPS_BY_ID.keys()) == sorted(names)
    for bad in ({}, {"stepType": "nope"}, {"stepType": ""}):
        try:
            Step.from_json(C.schema, bad)
            ok = False
        except ValueError:
            pass
    return rt.fin(ok, "registry")


def selftest():
    """Concrete inputs through the real json.dumps/json.loads."""
    out = []
    w = {"wire": True}
    for (lv, od, hr, ti, kd, mi) in ((1, 1, "x", 0, 0, 5), (6, -3, "\u00e9", 2, 3, 2 ** 60), (2, 0, "", 3, 4, -1), (3, 7, "a\"", 1, 2, 0), (1, 2, "<", 2, 1, 9)):
        out.append({"fn": "ob_node", "P": w, "args": [lv, od, hr, ti, kd, mi], "name": "wire/node"})
    for si in range(14):
        out.append({"fn": "ob_slice", "P": w, "args": [si, 0, 0], "name": "wire/slice"})
        out.append({"fn": "ob_slice", "P": w, "args": [si, 1, 1], "name": "wire/slice"})
    for kind in range(8):
        for (a, b, c, d, e, si, mi, fl, vk, vi) in ((1, 3, 0, 0, 0, 0, 1, False, 0, 0), (0, 5, 0, 0, 0, 2, 0, True, 0, 0), (2, 2, 0, 0, 0, 5, 4, False, 0, 0)):
            if kind == 1:
                c, d, e = a, b, 1
            if kind >= 4:
                b = 0
            if kind == 7:
                a = 0
            for (vk2, vi2) in (((0, 0),) if kind < 6 else ((0, 0), (1, 2), (2, 0), (3, 3), (4, 1))):
                out.append({"fn": "ob_step", "P": dict(w, kind=kind), "args": [kind, a, b, c, d, e if kind in (1,) else (e if kind < 6 else 7), si, mi, fl, vk2, vi2],
                            "name": "wire/step%d" % kind})
    return out


def obligations(tier, seed):
    T = 200 if tier == "quick" else 900
    obs = [{"name": "node", "fn": "ob_node", "P": {}, "timeout": T},
           {"name": "slice", "fn": "ob_slice", "P": {}, "timeout": T},
           {"name": "registry", "fn": "ob_registry", "P": {}, "timeout": T}]
    for k in range(8):
        p = {"kind": k}
        if tier == "quick":
            p["sis"] = [0, 2, 5, 10, 13, 15, 17]      # 15 = the empty slice
        obs.append({"name": "step-fields/kind=%d" % k, "fn": "ob_step", "P": p, "timeout": T})
        docs = [0] if tier == "quick" else [0, 1]
        sis = ([2, 5, 13, 17] if tier == "quick" else [0, 2, 5, 7, 10, 13, 17, 18]) if k < 2 else [0]      # 17, 18: zero-size, non-empty
        for di in docs:
            for si in sis:
                if k == 1 and tier == "quick" and si not in (5, 17):
                    continue
                size = common.templates.doc("list", di).content.size
                for aa in (range(-1, size + 2) if k in (1, 6) else [None]):
                    q = {"kind": k, "effect": 0, "effect_docs": [di], "sis": [si]}
                    if aa is not None:
                        if k == 1 and tier == "quick" and aa not in (0, 1):
                            continue
                        q["a"] = aa
                        if k == 1:
                            for bb in ([size, size - 1] if tier == "quick" else [size, size - 1, max(aa, 0) + 2]):
                                obs.append({"name": "step-effect/kind=1/list#%d/s%d/a=%s/b=%d" % (di, si, aa, bb), "fn": "ob_step",
                                            "P": dict(q, b=bb), "timeout": T})
                            continue
                    obs.append({"name": "step-effect/kind=%d/list#%d/s%d/a=%s" % (k, di, si, aa), "fn": "ob_step", "P": q, "timeout": T})
    return obs
