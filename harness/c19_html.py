"""C19 (restricted) - HTML export escapes and nests correctly; context expressions of parse rules match exactly
the open ancestors.  The import half (lxml element objects) is NOT covered: see MANIFEST not_applicable.

Engine E1: DOMSerializer.serialize_fragment / serialize_node / render_spec / Element.__str__ with text and
attribute characters chosen by symbolic indices from an alphabet containing < > & " ', numeric attributes as
unbounded symbolic ints, and mark sets as symbolic bits; ParseContext.matches_context with a symbolic
ancestor stack (depth and a type index per level) under the step budget.
"""
from engine import rt, stepbudget
from harness import common
from prosemirror.model import from_dom as fd
from prosemirror.model.to_dom import DOMSerializer

PROPERTY = "C19"
CH = ["a", "<", "&", '"', "'", ">", " "]
BOUNDS = ("export: a fixed document shape of the list schema (heading, paragraph with marked text, image, hard break, "
          "code block, ordered/bullet list, blockquote, rule) with every text and attribute string built from 1..2 "
          "symbolic characters of {a < & dquote squote > space}, heading level 1..6 and list start -1..3 symbolic (rendered into the output text), mark bits symbolic; "
          "context expressions: 12 expressions, ancestor stacks of depth <= 4 over 6 node types; pending marks: every (context type or none, "
          "pending mark type, next node type, already-active mark or none) of the list/docmarks (thorough: + mx1, mx5) schemas")
ASSUMPTIONS = ["pending-mark unit: contexts are built directly (NodeContext(type, ...)) with one pending mark and at most one active mark; schemas list, docmarks (quick) + mx1, mx5 (thorough)", "escaping reference = the five replacements for & < > dquote squote in text and attribute values",
               "the lxml-bound import half (parse, parse_slice, add_dom, normalize_list, whitespace handling, round trip) is not covered"]

P = {}
S = {}


def configure(p):
    P.clear()
    P.update(p)
    from engine import schemas
    S["schema"] = schemas.get("list")
    S["ser"] = DOMSerializer.from_schema(S["schema"])
    S["parser"] = fd.DOMParser.from_schema(S["schema"])
    codes = [fd.ParseContext.matches_context]
    for c in fd.ParseContext.matches_context.__code__.co_consts:
        if hasattr(c, "co_code"):
            codes.append(c)
    stepbudget.watch(*codes)


def esc(s):
    return s.replace("&", "&amp;").replace("<", "&lt;").replace(">", "&gt;").replace('"', "&quot;").replace("'", "&#x27;")


def mk(k, c0, c1):
    return "".join(CH[c] for c in (c0, c1)[:k])


def ob_export(k: int, c0: int, c1: int, level: int, start: int, em: bool, strong: bool, code: bool, link: bool, shape: int) -> bool:
    """post: _"""
    return rt.run(_export, k, c0, c1, level, start, em, strong, code, link, shape)


def _export(k, c0, c1, level, start, em, strong, code, link, shape):
    sch = S["schema"]
    n = len(CH)
    if not (0 <= k <= 2 and 0 <= c0 < n and 0 <= c1 < n and 0 <= shape < 4):
        return rt.SKIP
    if (k <= 1 and c1 != 0) or (k == 0 and c0 != 0):
        return rt.SKIP
    if not (1 <= level <= 6 and -1 <= start <= 3):
        return rt.SKIP                       # rendered into the tag text: formatting realises the value
    if shape != 0 and level != 1:
        return rt.SKIP
    if shape != 2 and start != 1:
        return rt.SKIP
    if "link" in P and link != P["link"]:
        return rt.SKIP
    if "level" in P and level != P["level"]:
        return rt.SKIP
    if "start" in P and start != P["start"]:
        return rt.SKIP
    if k == 2 and c1 > 2:
        return rt.SKIP
    if "shape" in P and shape != P["shape"]:
        return rt.SKIP
    k, c0, c1, shape = rt.pick(k, 0, 2), rt.pick(c0, 0, n - 1), rt.pick(c1, 0, n - 1), rt.pick(shape, 0, 3)
    em, strong, code, link = rt.pickb(em), rt.pickb(strong), rt.pickb(code), rt.pickb(link)
    s = mk(k, c0, c1)
    marks = []
    if link:
        marks.append(sch.marks["link"].create({"href": s, "title": s if shape % 2 else None}))
    if em:
        marks.append(sch.marks["em"].create())
    if strong:
        marks.append(sch.marks["strong"].create())
    if code:
        marks.append(sch.marks["code"].create())
    N = sch.nodes
    t1 = sch.text(s or "t", marks)             # k == 0: empty attribute strings (text cannot be empty)
    t2 = sch.text("z", marks[1:])           # shares a suffix of the marks: nesting must re-open in order
    t3 = sch.text(s or "t")
    if shape == 0:
        body = [N["heading"].create({"level": level}, [t3]), N["paragraph"].create(None, [t1, t2, t3])]
    elif shape == 1:
        body = [N["paragraph"].create(None, [t1, N["image"].create({"src": s, "alt": s, "title": None}), N["hard_break"].create(), t2]),
                N["horizontal_rule"].create()]
    elif shape == 2:
        body = [N["ordered_list"].create({"order": start}, [N["list_item"].create(None, [N["paragraph"].create(None, [t1])])]),
                N["code_block"].create(None, [t3])]
    else:
        body = [N["blockquote"].create(None, [N["bullet_list"].create(None, [N["list_item"].create(None, [N["paragraph"].create(None, [t2, t1])])])])]
    doc = N["doc"].create(None, body)
    got = str(S["ser"].serialize_fragment(doc.content))      # must not raise
    one = str(S["ser"].serialize_node(body[0]))

    def open_marks(ms):
        out = ""
        for m in ms:
            nm = m.type.name
            if nm == "link":
                out += '<a href="%s"' % esc(m.attrs["href"]) + (' title="%s"' % esc(m.attrs["title"]) if m.attrs["title"] is not None else "") + ">"
            else:
                out += "<%s>" % nm
        return out

    def close_marks(ms):
        return "".join("</%s>" % ("a" if m.type.name == "link" else m.type.name) for m in reversed(ms))

    def inline(nodes):
        out = ""
        active = []
        for nd in nodes:
            ms = list(nd.marks)
            keep = 0
            while keep < len(active) and keep < len(ms) and active[keep].eq(ms[keep]):
                keep += 1
            out += close_marks(active[keep:])
            active = active[:keep]
            out += open_marks(ms[keep:])
            active += ms[keep:]
            if nd.is_text:
                out += esc(nd.text)
            elif nd.type.name == "image":
                out += '<img src="%s" alt="%s">' % (esc(nd.attrs["src"]), esc(nd.attrs["alt"]))
            else:
                out += "<br>"
        return out + close_marks(active)

    def block(nd):
        nm = nd.type.name
        kids = nd.content.content
        if nm == "paragraph":
            return "<p>%s</p>" % inline(kids)
        if nm == "heading":
            return "<h%s>%s</h%s>" % (nd.attrs["level"], inline(kids), nd.attrs["level"])
        if nm == "horizontal_rule":
            return "<hr>"
        if nm == "code_block":
            return "<pre><code>%s</code></pre>" % inline(kids)
        if nm == "blockquote":
            return "<blockquote>%s</blockquote>" % "".join(block(c) for c in kids)
        if nm == "bullet_list":
            return "<ul>%s</ul>" % "".join(block(c) for c in kids)
        if nm == "list_item":
            return "<li>%s</li>" % "".join(block(c) for c in kids)
        if nm == "ordered_list":
            o = nd.attrs["order"]
            return ("<ol>" if o == 1 else '<ol start="%s">' % o) + "".join(block(c) for c in kids) + "</ol>"
        raise AssertionError(nm)
    want = "".join(block(b) for b in body)
    ok = got == want and one == block(body[0])
    return rt.fin(ok, "export: got %r want %r" % (got, want))


TYPES = ["paragraph", "blockquote", "list_item", "bullet_list", "heading", "code_block"]
CONTEXTS = ["paragraph/", "blockquote/paragraph/", "doc//", "list_item/|blockquote/", "block/", "blockquote//paragraph/",
            "/blockquote/", "doc/blockquote/", "//paragraph/", "block//", "doc/", "list_item/paragraph/|heading/"]


def ref_match(context, stack, groups):
    """stack: type names of the open ancestors, root first."""
    for alt in [c.strip() for c in context.split("|")]:
        parts = alt.split("/")
        if parts and parts[-1] == "":
            parts = parts[:-1]
        if parts and parts[0] == "":
            parts = parts[1:]

        def m(i, d):
            # parts[:i+1] must match a suffix of stack[:d+1]
            if i < 0:
                return True
            if parts[i] == "":
                return any(m(i - 1, dd) for dd in range(d, -2, -1))
            if d < 0:
                return False
            nm = stack[d]
            if nm != parts[i] and parts[i] not in groups.get(nm, ()):
                return False
            return m(i - 1, d - 1)
        if m(len(parts) - 1, len(stack) - 1):
            return True
    return False


def ob_context(depth: int, t0: int, t1: int, t2: int, t3: int, ci: int) -> bool:
    """post: _"""
    return rt.run(_context, depth, t0, t1, t2, t3, ci)


def _context(depth, t0, t1, t2, t3, ci):
    nt = P.get("nt", len(TYPES))
    if not (0 <= depth <= 4 and 0 <= ci < len(CONTEXTS)):
        return rt.SKIP
    if "depth" in P and depth != P["depth"]:
        return rt.SKIP
    for t in (t0, t1, t2, t3):
        if not (0 <= t < nt):
            return rt.SKIP
    depth, ci = rt.pick(depth, 0, 4), rt.pick(ci, 0, len(CONTEXTS) - 1)
    if "ci" in P and ci != P["ci"]:
        return rt.SKIP
    ts = [rt.pick(t, 0, nt - 1) for t in (t0, t1, t2, t3)]
    for j in range(depth, 4):
        if ts[j] != 0:
            return rt.SKIP
    sch = S["schema"]
    ctx = fd.ParseContext(S["parser"], fd.ParseOptions(), False)
    names = ["doc"]
    for j in range(depth):
        ctx.enter_inner(sch.nodes[TYPES[ts[j]]], None, True)
        names.append(TYPES[ts[j]])
    groups = {n: tuple(sp.get("group", "").split()) for n, sp in sch.spec["nodes"].items()}
    with stepbudget.budget(400):
        got = ctx.matches_context(CONTEXTS[ci])
    want = ref_match(CONTEXTS[ci], names, groups)
    return rt.fin(got == want, "matches_context(%r) on %r = %r" % (CONTEXTS[ci], names, got))


def ob_pending(si: int, ti: int, mi: int, ni: int, pre: int) -> bool:
    """post: _"""
    return rt.run(_pending, si, ti, mi, ni, pre)


PENDING_SCHEMAS = ["list", "docmarks", "mx1", "mx5"]


def _pending(si, ti, mi, ni, pre):
    """Import half, the one unit that does not touch lxml: NodeContext.apply_pending decides whether a mark seen on an
    enclosing element becomes active in the node being built.  A context of type T may only activate marks T allows
    (else the finished node is schema-invalid: 'marks in places that forbid them'); without a type (open slice context)
    the mark applies iff some node type that allows it can hold the next node; a mark is never lost or duplicated."""
    from engine import schemas
    from engine.oracle import cexpr
    from harness import common as _c
    if not (0 <= si < len(PENDING_SCHEMAS)):
        return rt.SKIP
    if "si" in P and si != P["si"]:
        return rt.SKIP
    si = rt.pick(si, 0, len(PENDING_SCHEMAS) - 1)
    sch = schemas.get(PENDING_SCHEMAS[si])
    V = _c.load({"schema": PENDING_SCHEMAS[si], "doc": 0}).V
    types = [None] + list(sch.nodes.values())
    marks = list(sch.marks.values())
    nexts = list(sch.nodes.values())
    if not (0 <= ti < len(types) and 0 <= mi < len(marks) and 0 <= ni < len(nexts) and 0 <= pre <= len(marks)):
        return rt.SKIP
    if "tlo" in P and not (P["tlo"] <= ti < P["thi"]):
        return rt.SKIP
    ti = rt.pick(ti, 0, len(types) - 1)
    if ti != 0:
        # with a typed context the next node's type must not matter: two representative values (an inline and a block type)
        names = [t.name for t in nexts]
        keep = [names.index(x) for x in ("text", "paragraph") if x in names]
        ok_ni = False
        for kx in keep:
            if ni == kx:
                ok_ni = True
        if not ok_ni:
            return rt.SKIP
    mi, ni, pre = rt.pick(mi, 0, len(marks) - 1), rt.pick(ni, 0, len(nexts) - 1), rt.pick(pre, 0, len(marks))
    T, M, N = types[ti], marks[mi], nexts[ni]
    req = {k: "v" for k, a in M.attrs.items() if a.is_required}
    mark = M.create(req or None)
    ctx = fd.NodeContext(T, None, [], [mark], True, None, 0)
    if pre:                                  # one mark already active in the context (pre-1 = its index)
        O = marks[pre - 1]
        if T is not None and not V.allows(T.name, O.name):
            return rt.SKIP
        ctx.active_marks = [O.create({k: "v" for k, a in O.attrs.items() if a.is_required} or None)]
    before_active = list(ctx.active_marks)
    was_in = mark.is_in_set(before_active)
    ctx.apply_pending(N)
    act, pend = list(ctx.active_marks), list(ctx.pending_marks)
    if T is not None:
        want = V.allows(T.name, M.name)
    else:
        want = any(V.allows(pn, M.name) and N.name in cexpr.names_in(V.ast(pn)) for pn in V.nodes)
    from engine.oracle.marks import ref_add
    from harness.c13_marks import fm
    rank = V.mark_rank
    exp = [fm(m) for m in before_active]
    if want and not was_in:        # the reference mark algebra decides what adding it to the active set means (exclusion, rank order)
        exp = ref_add(exp, fm(mark), lambda k: rank[k[0]], lambda x, y: x == y, lambda x, y: V.excludes(x[0], y[0]))
    ok = True
    why = None
    if T is not None and any(not V.allows(T.name, m.type.name) for m in act):
        ok, why = False, "a mark the context's node type forbids became active"
    elif [fm(m) for m in act] != exp:
        ok, why = False, "active marks %r, reference %r" % ([m.type.name for m in act], [e[0] for e in exp])
    elif (want and not was_in) == mark.is_in_set(pend):
        ok, why = False, "pending list wrong: a consumed mark must leave it, any other must stay"
    return rt.fin(ok, why)


def obligations(tier, seed):
    T = 200 if tier == "quick" else 900
    obs = []
    for si in range(len(PENDING_SCHEMAS) if tier != "quick" else 2):
        from engine import schemas as _s
        nt = len(_s.get(PENDING_SCHEMAS[si]).nodes) + 1
        for lo in range(0, nt, 6):
            obs.append({"name": "pending/%s/%d" % (PENDING_SCHEMAS[si], lo), "fn": "ob_pending",
                        "P": {"si": si, "tlo": lo, "thi": lo + 6}, "timeout": T})
    for shape in range(4):
        for link in (False, True):
            extra = [{}]
            if shape == 0:
                extra = [{"level": lv} for lv in ((1, 6) if tier == "quick" else range(1, 7))]
            if shape == 2:
                extra = [{"start": st} for st in ((0, 1, 3) if tier == "quick" else range(-1, 4))]
            for ex in extra:
                obs.append({"name": "export/shape=%d/link=%s/%s" % (shape, link, "".join("%s=%s" % kv for kv in ex.items())),
                            "fn": "ob_export", "P": dict({"shape": shape, "link": link}, **ex), "timeout": T})
    for ci in range(len(CONTEXTS)):
        for depth in ((0, 1, 2, 3) if tier == "quick" else (0, 1, 2, 3, 4)):
            obs.append({"name": "context/%d/depth=%d" % (ci, depth), "fn": "ob_context",
                        "P": {"ci": ci, "depth": depth, "nt": 4 if tier == "quick" else 6}, "timeout": T})
    return obs
