"""C14 - mark sets are canonical and respect the schema's exclusion and permission rules.

Engine E1.  The exclusion relation between mark types is *symbolic*: every MarkType.excluded list of
a really constructed Schema is replaced by entries whose `.name` is decided by a solver boolean only
when Mark.add_to_set / MarkType.excludes consult it, so the solver - not an enumeration of matrices -
chooses the relation along each path.  Attribute values of the two same-type marks are unbounded
symbolic ints (equality of marks is decided by the solver); set membership and parent permission bits
are symbolic booleans.  The compilation of `excludes` / `marks` spec strings (Schema.__init__,
gather_marks) is a separate obligation over solver-chosen relations rendered as real spec strings.
"""
from engine import rt
from engine.oracle.marks import ref_add, ref_canonical, ref_remove
from prosemirror.model import Mark, Schema

PROPERTY = "C14"
BOUNDS = ("3 mark types (thorough: 4), one of them with an integer attribute and two instances whose attribute "
          "values are unbounded symbolic ints; arbitrary (symbolic) exclusion relation incl. self-exclusion; every "
          "subset of the instances that is canonical under that relation; spec-string renderings: explicit names, "
          "'_', '', absent, group names (incl. a group whose name contains another group's name); same_set on two orders of the same members")
ASSUMPTIONS = ["mutual exclusion is resolved as upstream does (going through the set in order, the new mark "
               "drops marks it excludes before a present mark can veto it); the statement does not decide that case"]

P = {}
S = {}


class LazyEx:
    """Entry of MarkType.excluded whose name matches `real` iff the solver boolean holds."""

    def __init__(self, real, flag):
        self.real = real
        self.flag = flag

    @property
    def name(self):
        return self.real if self.flag else "\x00none"


def base_spec(n):
    marks = {}
    for i in range(n):
        marks["t%d" % i] = {"attrs": {"id": {"default": 0}}} if i == 1 else {}
    return {"nodes": {"doc": {"content": "para+"}, "para": {"content": "text*"}, "text": {}}, "marks": marks}


def configure(p):
    P.clear()
    P.update(p)
    n = p.get("n", 3)
    S.clear()
    S["n"] = n
    S["schema"] = Schema(base_spec(n))
    S["types"] = [S["schema"].marks["t%d" % i] for i in range(n)]


def instances(id1, id2):
    """Universe of mark instances in rank order: t0, t1(id1), t1(id2), t2[, t3]."""
    ty = S["types"]
    out = [(0, ty[0].create()), (1, Mark(ty[1], {"id": id1})), (1, Mark(ty[1], {"id": id2}))]
    for i in range(2, S["n"]):
        out.append((i, ty[i].create()))
    return out


def install(X):
    n = S["n"]
    for i in range(n):
        S["types"][i].excluded = [LazyEx("t%d" % j, X[i * n + j]) for j in range(n)]


def helpers(X):
    n = S["n"]

    def rank(m):
        return m[0]

    def same(a, b):
        return a[0] == b[0] and a[1].attrs["id"] == b[1].attrs["id"] if a[0] == 1 and b[0] == 1 else a[0] == b[0]

    def excl(a, b):
        return bool(X[a[0] * n + b[0]])
    return rank, same, excl


def marks_of(lst):
    return [m for (_i, m) in lst]


def same_list(real, want, same):
    """real: list of Mark objects; want: list of (type index, Mark)."""
    if len(real) != len(want):
        return False
    for r, w in zip(real, want):
        if r.type is not w[1].type or r.attrs != w[1].attrs:
            return False
    return True


def pick_set(univ, bits):
    return [univ[k] for k in range(len(univ)) if bits[k]]


# --------------------------------------------------------------------------------------------
def ob_add(x0: bool, x1: bool, x2: bool, x3: bool, x4: bool, x5: bool, x6: bool, x7: bool, x8: bool,
           x9: bool, x10: bool, x11: bool, x12: bool, x13: bool, x14: bool, x15: bool,
           b0: bool, b1: bool, b2: bool, b3: bool, b4: bool, new: int, id1: int, id2: int) -> bool:
    """post: _"""
    return rt.run(_add, x0, x1, x2, x3, x4, x5, x6, x7, x8, x9, x10, x11, x12, x13, x14, x15,
                  b0, b1, b2, b3, b4, new, id1, id2)


def _add(*a):
    X, bits, (new, id1, id2) = list(a[:16]), list(a[16:21]), a[21:]
    n = S["n"]
    univ = instances(id1, id2)
    if not (0 <= new < len(univ)):
        return rt.SKIP
    if n == 3 and (bits[4] or X[9] or X[10] or X[11] or X[12] or X[13] or X[14] or X[15]):
        return rt.SKIP                                  # unused variables pinned
    if n == 3:
        X = X[:9]
    new = rt.pick(new, 0, len(univ) - 1)
    install(X)
    rank, same, excl = helpers(X)
    cur = pick_set(univ, bits)
    if not ref_canonical(cur, rank, same, excl):
        return rt.SKIP                                  # only canonical (reachable) sets
    nm = univ[new]
    real_set = marks_of(cur)
    snapshot = list(real_set)
    got = nm[1].add_to_set(real_set)
    want = ref_add(cur, nm, rank, same, excl)
    ok = same_list(got, want, same)
    ok = ok and ref_canonical(want, rank, same, excl)
    ok = ok and real_set == snapshot and Mark.none == []      # argument and shared empty set untouched
    if ok and len(want) == len(cur) and all(a is b for a, b in zip(want, cur)):
        ok = Mark.same_set(got, real_set)                        # 'returns the set unchanged'
    return rt.fin(ok, "add_to_set")


def ob_chain(x0: bool, x1: bool, x2: bool, x3: bool, x4: bool, x5: bool, x6: bool, x7: bool, x8: bool,
             a0: int, a1: int, a2: int, r0: int, id1: int, id2: int) -> bool:
    """post: _"""
    return rt.run(_chain, x0, x1, x2, x3, x4, x5, x6, x7, x8, a0, a1, a2, r0, id1, id2)


def _chain(*a):
    X, (a0, a1, a2, r0, id1, id2) = list(a[:9]), a[9:]
    """Histories: three additions and one removal from the empty set, real vs reference at each step."""
    univ = instances(id1, id2)
    k = len(univ)
    for a in (a0, a1, a2, r0):
        if not (0 <= a < k):
            return rt.SKIP
    if "a0" in P and (a0 != P["a0"] or a1 != P["a1"]):
        return rt.SKIP
    if "a2" in P and a2 != P["a2"]:
        return rt.SKIP
    if P.get("diag") and not (X[0] and X[4] and X[8]):
        return rt.SKIP                       # quick tier: every type excludes itself (the default)
    install(X)
    rank, same, excl = helpers(X)
    real, ref = Mark.none, []
    ok = True
    for a in (a0, a1, a2):
        a = rt.pick(a, 0, k - 1)
        real = univ[a][1].add_to_set(real)
        ref = ref_add(ref, univ[a], rank, same, excl)
        ok = ok and same_list(real, ref, same) and ref_canonical(ref, rank, same, excl)
    r0 = rt.pick(r0, 0, k - 1)
    real2 = univ[r0][1].remove_from_set(real)
    ref2 = ref_remove(ref, univ[r0], same)
    ok = ok and same_list(real2, ref2, same) and ref_canonical(ref2, rank, same, excl)
    ok = ok and univ[r0][1].is_in_set(real) == (len(ref2) != len(ref)) and not univ[r0][1].is_in_set(real2)
    ok = ok and Mark.none == []
    return rt.fin(ok, "add/remove chain")


def ob_setops(b0: bool, b1: bool, b2: bool, b3: bool, c0: bool, c1: bool, c2: bool, c3: bool,
              m: int, id1: int, id2: int, perm: int) -> bool:
    """post: _"""
    return rt.run(_setops, b0, b1, b2, b3, c0, c1, c2, c3, m, id1, id2, perm)


PERMS = [(0, 1, 2, 3), (0, 1, 3, 2), (0, 2, 1, 3), (0, 2, 3, 1), (0, 3, 1, 2), (0, 3, 2, 1),
         (1, 0, 2, 3), (1, 0, 3, 2), (1, 2, 0, 3), (1, 2, 3, 0), (1, 3, 0, 2), (1, 3, 2, 0),
         (2, 0, 1, 3), (2, 0, 3, 1), (2, 1, 0, 3), (2, 1, 3, 0), (2, 3, 0, 1), (2, 3, 1, 0),
         (3, 0, 1, 2), (3, 0, 2, 1), (3, 1, 0, 2), (3, 1, 2, 0), (3, 2, 0, 1), (3, 2, 1, 0)]


def _setops(*a):
    bits, cbits, (m, id1, id2, perm) = list(a[:4]), list(a[4:8]), a[8:]
    univ = instances(id1, id2)
    if not (0 <= m < 4 and 0 <= perm < 24):
        return rt.SKIP
    what = P.get("what", "ops")
    if what == "ops" and perm != 0:
        return rt.SKIP
    if what == "set_from" and (m != 0 or cbits[0] or cbits[1] or cbits[2] or cbits[3]):
        return rt.SKIP
    m = rt.pick(m, 0, 3)
    perm = rt.pick(perm, 0, 23)
    if what == "order":
        # two sets with the SAME members that hold two marks of one (non-self-excluding) type in different order: both are
        # reachable ([c1, c2] by adding c1 then c2; [c2, c1] by removing c1 from it and adding it again)
        if m != 0 or perm != 0 or not (bits[1] and bits[2]) or id1 == id2 or any(bits[i] != cbits[i] for i in range(4)):
            return rt.SKIP
        A = pick_set(univ[:4], bits)
        k1 = [i for i, o in enumerate(A) if o[0] == 1]
        B = list(A)
        B[k1[0]], B[k1[1]] = A[k1[1]], A[k1[0]]
        ok = Mark.same_set(marks_of(A), marks_of(B))
        if not ok and rt.known_mode("C14-same-set-is-order-sensitive-within-a-type"):
            return rt.fin(Mark.same_set(marks_of(B), marks_of(B)) and all(o[1].is_in_set(marks_of(B)) for o in A))
        return rt.fin(ok, "same_set is False for two sets with the same members")

    def same(a, b):
        return a[0] == b[0] and (a[0] != 1 or a[1].attrs["id"] == b[1].attrs["id"])
    A = pick_set(univ[:4], bits)
    B = pick_set(univ[:4], cbits)
    if id1 == id2 and ((bits[1] and bits[2]) or (cbits[1] and cbits[2])):
        return rt.SKIP                       # a set never holds two equal marks
    ra, rb = marks_of(A), marks_of(B)
    x = univ[m]
    ok = x[1].is_in_set(ra) == any(same(x, o) for o in A)
    ok = ok and same_list(x[1].remove_from_set(ra), ref_remove(A, x, same), same)
    # set equality is element-wise equality of two canonical (ordered) sets
    eq_sets = len(A) == len(B) and all(same(a, b) for a, b in zip(A, B))
    ok = ok and Mark.same_set(ra, rb) == eq_sets and Mark.same_set(ra, ra)
    # mark-type level membership / removal
    t = x[1].type
    found = t.is_in_set(ra)
    ok = ok and (found is not None) == any(o[0] == x[0] for o in A)
    if found is not None:
        ok = ok and found.type is t
    ok = ok and same_list(t.remove_from_set(ra), [o for o in A if o[0] != x[0]], same)
    # set_from: any permutation of the members comes back sorted by rank, stably
    members = [univ[i] for i in PERMS[perm] if bits[i]]
    got = Mark.set_from(marks_of(members))
    want = sorted(members, key=lambda o: o[0])
    ok = ok and same_list(got, want, same) and all(g is w[1] for g, w in zip(got, want))
    ok = ok and Mark.set_from(None) == [] and Mark.set_from([]) == [] and Mark.set_from(x[1]) == [x[1]]
    return rt.fin(ok, "remove/is_in_set/same_set/set_from")


def ob_allowed(p0: bool, p1: bool, p2: bool, allow_all: bool, b0: bool, b1: bool, b2: bool, b3: bool,
               id1: int, id2: int) -> bool:
    """post: _"""
    return rt.run(_allowed, p0, p1, p2, allow_all, b0, b1, b2, b3, id1, id2)


def _allowed(*a):
    perm, allow_all, bits, (id1, id2) = list(a[:3]), a[3], list(a[4:8]), a[8:]
    univ = instances(id1, id2)[:4]
    para = S["schema"].nodes["para"]
    ty = S["types"]
    saved = para.mark_set
    try:
        para.mark_set = None if allow_all else [ty[i] for i in range(3) if perm[i]]
        A = pick_set(univ, bits)
        ra = marks_of(A)
        snapshot = list(ra)

        def allowed(o):
            return bool(allow_all) or bool(perm[o[0]])
        want = [o for o in A if allowed(o)]
        got = para.allowed_marks(ra)
        ok = len(got) == len(want) and all(g is w[1] for g, w in zip(got, want))
        ok = ok and para.allows_marks(ra) == (len(want) == len(A))
        for i in range(3):
            ok = ok and para.allows_mark_type(ty[i]) == (bool(allow_all) or bool(perm[i]))
        ok = ok and ra == snapshot and Mark.none == []
    finally:
        para.mark_set = saved
    return rt.fin(ok, "allowed_marks / allows_marks")


def render(row, i, n, variant, groups):
    """Spec value for `excludes` of mark i given its row of the relation (None = key absent)."""
    names = ["t%d" % j for j in range(n) if row[j]]
    if variant == 1:
        if len(names) == n:
            return "_"
        if names == ["t%d" % i]:
            return None
    if variant in (2, 3) and groups:
        g = [j for j in range(n) if "g" in groups.get(j, ())]
        if g and all(row[j] for j in g):
            return " ".join(["g"] + ["t%d" % j for j in range(n) if row[j] and j not in g])
    return " ".join(names)


def ob_compile(x0: bool, x1: bool, x2: bool, x3: bool, x4: bool, x5: bool, x6: bool, x7: bool, x8: bool,
               p0: bool, p1: bool, p2: bool, mode: int) -> bool:
    """post: _"""
    return rt.run(_compile, x0, x1, x2, x3, x4, x5, x6, x7, x8, p0, p1, p2, mode)


def _compile(*a):
    """Schema(...) turns `excludes`/`marks` strings into the relation they denote."""
    X, perm, mode = list(a[:9]), list(a[9:12]), a[12]
    n = 3
    if not (0 <= mode < 4):
        return rt.SKIP
    if P.get("vary") == "excludes":
        if perm[0] or perm[1] or perm[2] or mode != 2:
            return rt.SKIP
    else:
        for k in range(9):
            if X[k] != (k % 4 == 0):
                return rt.SKIP
    X = [rt.pickb(x) for x in X]
    perm = [rt.pickb(p) for p in perm]
    mode = rt.pick(mode, 0, 3)
    with rt.untraced():
        return _compile_concrete(X, perm, mode, n)


def _compile_concrete(X, perm, mode, n):
    variant = P.get("variant", 0)
    # variant 3: a second group whose NAME contains the first one's ("g" / "gg"): group lookup is by whole name
    groups = {1: ("g",), 2: ("g", "h")} if variant == 2 else ({1: ("g",), 2: ("gg", "h")} if variant == 3 else {})
    marks = {}
    for i in range(n):
        sp = {}
        ex = render(X[i * n:(i + 1) * n], i, n, variant, groups)
        if ex is not None:
            sp["excludes"] = ex
        if i in groups:
            sp["group"] = " ".join(groups[i])
        marks["t%d" % i] = sp
    # parent `marks` spec: 0 explicit names, 1 "_" / "" when all / none, 2 key absent (inline parent: all),
    # 3 key absent on a block-content parent (none)
    names = " ".join("t%d" % i for i in range(n) if perm[i])
    para = {"content": "text*"}
    blk = {"content": "para+"}
    if mode == 0:
        if names == "":
            return rt.SKIP
        para["marks"] = names
        want = [bool(p) for p in perm]
    elif mode == 1:
        if all(perm):
            para["marks"] = "_"
        elif not any(perm):
            para["marks"] = ""
        elif variant == 2 and perm[1] and perm[2]:
            para["marks"] = "g" + (" t0" if perm[0] else "")
        elif variant == 3 and perm[1]:
            para["marks"] = " ".join(["g"] + ["t%d" % j for j in (0, 2) if perm[j]])
        else:
            return rt.SKIP
        want = [bool(p) for p in perm]
    else:
        want = [True] * n
    sch = Schema({"nodes": {"doc": {"content": "blk+"}, "blk": blk, "para": para, "text": {}}, "marks": marks})
    ok = True
    ty = [sch.marks["t%d" % i] for i in range(n)]
    for i in range(n):
        ok = ok and ty[i].rank == i
        for j in range(n):
            ok = ok and ty[i].excludes(ty[j]) == X[i * n + j]
        ok = ok and sch.nodes["para"].allows_mark_type(ty[i]) == want[i]
        ok = ok and sch.nodes["blk"].allows_mark_type(ty[i]) is False       # block content, no marks key
        ok = ok and sch.nodes["doc"].allows_mark_type(ty[i]) is False
    return rt.fin(ok, "schema compilation of excludes/marks")


def obligations(tier, seed):
    T = 150 if tier == "quick" else 900
    obs = []
    obs.append({"name": "add/n=3", "fn": "ob_add", "P": {"n": 3}, "timeout": T})
    for a0 in range(4):
        for a1 in range(4):
            if tier == "quick":
                obs.append({"name": "chain/n=3/a0=%d/a1=%d" % (a0, a1), "fn": "ob_chain",
                            "P": {"n": 3, "a0": a0, "a1": a1, "diag": True}, "timeout": T})
            else:
                for a2 in range(4):
                    obs.append({"name": "chain/n=3/a0=%d/a1=%d/a2=%d" % (a0, a1, a2), "fn": "ob_chain",
                                "P": {"n": 3, "a0": a0, "a1": a1, "a2": a2}, "timeout": T})
    obs.append({"name": "setops/ops", "fn": "ob_setops", "P": {"n": 3, "what": "ops"}, "timeout": T})
    obs.append({"name": "setops/set_from", "fn": "ob_setops", "P": {"n": 3, "what": "set_from"}, "timeout": T})
    obs.append({"name": "setops/order", "fn": "ob_setops", "P": {"n": 3, "what": "order"}, "timeout": T})
    obs.append({"name": "allowed", "fn": "ob_allowed", "P": {"n": 3}, "timeout": T})
    for v in (0, 1, 2, 3):
        for vary in ("excludes", "marks"):
            obs.append({"name": "compile/variant=%d/%s" % (v, vary), "fn": "ob_compile",
                        "P": {"n": 3, "variant": v, "vary": vary}, "timeout": T})
    if tier == "thorough":
        obs.append({"name": "add/n=4", "fn": "ob_add", "P": {"n": 4}, "timeout": 2400})
    return obs
