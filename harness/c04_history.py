"""C04 - every recorded change can be undone exactly and replayed exactly.

Engine E1, inductive step over histories: a Transform carried through a fixed non-empty prefix (two replace
steps and a mark step) performs ONE operation with symbolic arguments (21 kinds).  Afterwards - also when the
operation was rejected - the alignment invariant holds (steps/docs/maps aligned, every recorded step re-applied
to its recorded document gives the next one, every map is its step's map), and inverting the new steps in reverse
restores the pre-document, with the inverted step's map equal to the inverted map on every position.
A second obligation chains two symbolic operations (histories of length two beyond the prefix).
Single-step part: invert() of primitive replace / replace-around / attribute / node-mark steps under the
catalogue schemas.
"""
from engine import rt
from harness import c01_steps, common, opcheck, ops, tlib
from prosemirror.transform import Transform
from prosemirror.transform.doc_attr_step import DocAttrStep

PROPERTY = "C04"
BOUNDS = ("catalogue documents of the basic/list/strict/title/fixed/iso/table schemas; one (and two chained) "
          "operations of every kind of the transform API with symbolic arguments after a fixed three-step prefix; "
          "primitive steps as in C01; node-mark steps also under the exclusion schemas mx1/mx2/mx4/mx5/mx6 (leaf nodes carrying one and two marks); "
          "set_node_markup towards every leaf type at every position (markup-leaf)")
ASSUMPTIONS = ["histories of any length follow by induction: every operation reads only the current document (and, in "
               "set_block_type, the mapping sliced at its entry length), so invariant + per-segment invertibility compose; "
               "this argument is not discharged by the solver"]

P = opcheck.P


def judge(phase, tr, pre, n0, raised, ctx):
    if phase == "before":
        return {"docs": list(tr.docs), "steps": list(tr.steps), "maps": list(tr.mapping.maps)}
    start = tr.docs[0] if tr.docs else tr.doc
    # the old prefix of the three lists is untouched (identity)
    for name, old, new in (("docs", ctx["docs"], tr.docs), ("steps", ctx["steps"], tr.steps), ("maps", ctx["maps"], tr.mapping.maps)):
        if len(new) < len(old) or any(x is not y for x, y in zip(old, new)):
            return "recorded %s were rewritten" % name
    w = tlib.check_inv(tr, opcheck.CTX["C"].doc if tr.docs else tr.doc, n0)
    if w:
        return ("after a rejected operation: " if raised is not None else "") + w
    w = tlib.check_undo(tr, n0)
    if w:
        return w
    if tr.before is not (tr.docs[0] if tr.docs else tr.doc):
        return "Transform.before"
    return None


def configure(p):
    if p.get("prim"):
        c01_steps.configure(p)
        P.clear()
        P.update(p)
    else:
        opcheck.setup(p, judge, True)


def ob_op(a: int, b: int, x: int) -> bool:
    """post: _"""
    return rt.run(opcheck.body, a, b, x)


def ob_two(a: int, b: int, x: int, a2: int, b2: int) -> bool:
    """post: _"""
    return rt.run(_two, a, b, x, a2, b2)


def _two(a, b, x, a2, b2):
    """Two chained operations: kind1 with (a, b, x) then kind2 with (a2, b2, x2=0) on the resulting document."""
    C = opcheck.CTX["C"]
    k1, k2 = P["kind"], P["kind2"]
    nx = ops.xrange_of(C, k1)
    if not (0 <= a <= b <= C.size and 0 <= x < nx and 0 <= a2 <= b2):
        return rt.SKIP
    if not ops.uses_b(k1) and b != a:
        return rt.SKIP
    if not ops.uses_b(k2) and b2 != a2:
        return rt.SKIP
    if "a" in P and a != P["a"]:
        return rt.SKIP
    if C.is_split(a) or C.is_split(b):
        return rt.SKIP
    x = rt.pick(x, 0, nx - 1)
    if "xs" in P and x not in P["xs"]:
        return rt.SKIP
    tr = Transform(C.doc)
    try:
        ops.run_op(C, tr, k1, a, b, x)
    except (ops.Skip, ValueError):
        return rt.SKIP
    n1 = len(tr.steps)
    if b2 > tr.doc.content.size:
        return rt.SKIP
    mid = tr.doc
    raised = None
    try:
        ops.run_op(C, tr, k2, a2, b2, 0)
    except ops.Skip:
        return rt.SKIP
    except ValueError as e:
        raised = e
    a, b = rt.pick(a, 0, C.size), rt.pick(b, 0, C.size)
    a2, b2 = rt.pick(a2, 0, C.size + 12), rt.pick(b2, 0, C.size + 12)
    w = tlib.check_inv(tr, C.doc)
    if w is None:
        w = tlib.check_undo(tr, 0)
    return rt.fin(w is None, w)


def ob_prim_invert(a: int, b: int, si: int, kind: int, mi: int) -> bool:
    """post: _"""
    return rt.run(_prim_invert, a, b, si, kind, mi)


def _prim_invert(a, b, si, kind, mi):
    """invert(doc).apply(step.apply(doc)) == doc for replace (0), attr (1), doc attr (2), add/remove node mark (3/4)."""
    C = c01_steps.C
    if not (0 <= a <= b <= C.size and 0 <= si < len(C.slices) and 0 <= kind < 5 and 0 <= mi < max(1, len(C.marks))):
        return rt.SKIP
    if not c01_steps.chunk_ok(a) or C.is_split(a) or C.is_split(b):
        return rt.SKIP
    if "pk" in P and kind != P["pk"]:
        return rt.SKIP
    kind, si, mi = rt.pick(kind, 0, 4), rt.pick(si, 0, len(C.slices) - 1), rt.pick(mi, 0, max(1, len(C.marks)) - 1)
    if "slices" in P and kind == 0 and si not in P["slices"]:
        return rt.SKIP
    if kind != 0 and (b != a or si != 0):
        return rt.SKIP
    doc = C.doc
    if kind == 0:
        # structure flag from the (otherwise unused) mark index: hand-built / decoded steps may carry it
        step = c01_steps.ReplaceStep(a, b, C.slices[si], mi % 2 == 1)
        if mi > 1:
            return rt.SKIP
    elif kind == 1:
        n = doc.node_at(a)
        names = sorted(n.attrs.keys()) if n is not None and n.attrs else []
        if not names:
            return rt.SKIP
        step = c01_steps.AttrStep(a, names[0], [2, 5, None][mi % 3])
    elif kind == 2:
        if a != 0 or (not doc.attrs and mi < 3):
            return rt.SKIP
        # declared attribute, or (mi >= 3) a name the document type does not declare: the step applies (changing nothing)
        step = DocAttrStep(sorted(doc.attrs.keys())[0] if mi < 3 else "undeclared", [2, "v", None][mi % 3])
    else:
        if not C.marks:
            return rt.SKIP
        step = (c01_steps.AddNodeMarkStep if kind == 3 else c01_steps.RemoveNodeMarkStep)(a, C.marks[mi])
    try:
        res = step.apply(doc)
    except ValueError:
        return rt.SKIP
    if res.failed is not None:
        return rt.SKIP
    inv = step.invert(doc)
    back = inv.apply(res.doc)
    ok = back.failed is None and back.doc is not None and back.doc.eq(doc) and back.doc.attrs == doc.attrs
    why = "inverted %s does not restore the document" % type(step).__name__
    if not ok and kind == 3 and _irreversible_eviction(C, doc.node_at(a), C.marks[mi]) \
            and rt.known_mode("C04-add-node-mark-irreversible-eviction"):
        # listed open finding; what is still demanded: the inverse applies and changes nothing but that node's marks
        from engine.oracle.tokens import doc_tokens
        bt = doc_tokens(back.doc) if back.failed is None else None
        a = rt.pick(a, 0, C.size)
        same = bt is not None and len(bt) == len(C.tok) and bt[a][:3] == C.tok[a][:3] \
            and all(bt[i] == C.tok[i] for i in range(len(bt)) if i != a)
        return rt.fin(same, why + " (beyond the listed mode)")
    if ok:
        from engine.oracle.tokens import doc_tokens
        ok = doc_tokens(back.doc) == C.tok
    return rt.fin(ok, why)


def ob_markup_leaf(a: int, ti: int) -> bool:
    """post: _"""
    return rt.run(_markup_leaf, a, ti)


def _markup_leaf(a, ti):
    """set_node_markup towards a LEAF type (e.g. an empty paragraph turned into a horizontal rule): recorded, replayable,
    undoable.  (The operation catalogue of ops.py only draws textblock types for set_node_markup.)"""
    C = c01_steps.C
    leafs = [t for t in C.schema.nodes.values() if t.is_leaf and not t.is_text and not t.has_required_attrs()]
    if not (0 <= a <= C.size and 0 <= ti < len(leafs)) or C.is_split(a):
        return rt.SKIP
    ti = rt.pick(ti, 0, len(leafs) - 1)
    tr = Transform(C.doc)
    raised = None
    try:
        tr.set_node_markup(a, leafs[ti], None)
    except ValueError as e:
        raised = e
    a = rt.pick(a, 0, C.size)
    w = tlib.check_inv(tr, C.doc)
    if w is not None or raised is not None:
        return rt.fin(w is None, w)
    w = tlib.check_undo(tr, 0)
    node = C.doc.node_at(a)
    if w is not None and node is not None and not node.is_leaf and node.content.size == 0 \
            and rt.known_mode("C04-set-node-markup-to-leaf-not-undoable"):
        return rt.fin(True)        # listed open finding; alignment and replay were asserted above
    return rt.fin(w is None, w)


def _irreversible_eviction(C, node, mark):
    """Reference mark algebra (engine/oracle/marks.py), not the code under test: adding `mark` to the node's marks evicts
    more than one mark, or one mark that cannot evict `mark` in return - no Add/RemoveNodeMarkStep can undo that."""
    from engine.oracle.marks import ref_add
    from harness.c13_marks import fm
    V = C.V
    rank = V.mark_rank
    add = lambda ms, m: ref_add(list(ms), m, lambda k: rank[k[0]], lambda x, y: x == y, lambda x, y: V.excludes(x[0], y[0]))  # noqa: E731
    old = [fm(m) for m in node.marks]
    new = add(old, fm(mark))
    gone = [m for m in old if m not in new]
    if not gone:
        return False
    return len(gone) > 1 or add(new, gone[0]) != old


def ob_prim_invert_around(a: int, b: int, ga: int, gb: int, ri: int, ins: int) -> bool:
    """post: _"""
    return rt.run(_prim_invert_around, a, b, ga, gb, ri, ins)


def _prim_invert_around(a, b, ga, gb, ri, ins):
    """Exact undo of a successfully applied ReplaceAroundStep (gap anywhere inside [a, b], also inside text)."""
    C = c01_steps.C
    if not (0 <= a <= ga <= gb <= b <= C.size and 0 <= ri < len(C.ras)):
        return rt.SKIP
    if a != P["a"] or b != P["b"]:
        return rt.SKIP
    for x in (a, b, ga, gb):
        if C.is_split(x):
            return rt.SKIP
    ri = rt.pick(ri, 0, len(C.ras) - 1)
    if "ras" in P and ri not in P["ras"]:
        return rt.SKIP
    sl, _nat = C.ras[ri]
    if not (0 <= ins <= sl.size):
        return rt.SKIP
    step = c01_steps.ReplaceAroundStep(a, b, ga, gb, sl, ins, False)
    try:
        res = step.apply(C.doc)
    except ValueError:
        return rt.SKIP
    if res.failed is not None:
        return rt.SKIP
    inv = step.invert(C.doc)
    back = inv.apply(res.doc)
    ok = back.failed is None and back.doc is not None and back.doc.eq(C.doc)
    if ok:
        from engine.oracle.tokens import doc_tokens
        ok = doc_tokens(back.doc) == C.tok
    return rt.fin(ok, "inverted ReplaceAroundStep does not restore the document")


def _around_reachable(C_, a, b, ri):
    """Concrete pre-filter for obligation generation only: does ANY gap / insert position let the step apply?"""
    Cx = ops.payloads(C_) if not hasattr(C_, "ras") else C_
    if ri >= len(Cx.ras):
        return False
    sl, _nat = Cx.ras[ri]
    for ga in range(a, b + 1):
        for gb in range(ga, b + 1):
            if Cx.is_split(ga) or Cx.is_split(gb):
                continue
            for ins in range(0, sl.size + 1):
                try:
                    if c01_steps.ReplaceAroundStep(a, b, ga, gb, sl, ins, False).apply(Cx.doc).failed is None:
                        return True
                except ValueError:
                    pass
    return False


QUICK = [("list", 1), ("strict", 0)]
QUICK_LIST_KINDS = ["lift", "wrap", "split", "join", "delete_range", "delete"]
TWO_QUICK = [("delete", "add_mark"), ("split", "join")]
TWO_MORE = [("replace", "delete"), ("wrap", "lift"), ("set_block_type", "delete_range")]


def obligations(tier, seed):
    T = 200 if tier == "quick" else 900
    obs = opcheck.op_obligations("quick" if tier == "quick" else "explicit", QUICK if tier == "quick" else
                                 [("list", 1), ("list", 3), ("list", 4), ("strict", 0), ("iso", 1)], ops.KINDS, [], T,
                                 xs_quick=3 if tier == "quick" else 99, step_quick=4 if tier == "quick" else 3)
    if tier == "quick":
        obs += opcheck.op_obligations(tier, [("list", 3)], QUICK_LIST_KINDS, [], T)
        obs += opcheck.op_obligations(tier, [("list", 16)], ["lift", "wrap", "join"], [], T)     # list item whose second child can be lifted
    pairs = TWO_QUICK if tier == "quick" else TWO_QUICK + TWO_MORE + [("insert", "split"), ("replace_range", "remove_mark_all"), ("lift", "wrap"),
                                                          ("add_mark", "replace"), ("set_node_markup", "delete")]
    for (sn, i) in ([("list", 0)] if tier == "quick" else [("list", 0), ("strict", 0)]):
        C = ops.payloads(common.load({"schema": sn, "doc": i}))
        for (k1, k2) in pairs:
            nx = ops.xrange_of(C, k1)
            for aa in (range(1, 3) if tier == "quick" else range(0, C.size + 1)):
                if not opcheck.reachable(C, k1, aa, aa + 1, range(min(nx, 2))):
                    continue
                obs.append({"name": "two/%s+%s/%s#%d/a=%d" % (k1, k2, sn, i, aa), "fn": "ob_two",
                            "P": {"schema": sn, "doc": i, "kind": k1, "kind2": k2, "a": aa, "xs": list(range(min(nx, 2)))}, "timeout": T})
    # (schema, doc, kinds): attr steps need a node with attrs, node-mark steps a parent that allows marks on blocks
    prim = [("list", 1, [0, 2]), ("list", 4, [1]), ("docmarks", 0, [3, 4]), ("docmarks", 2, [3, 4]), ("mx1", 1, [3, 4]), ("mx2", 5, [3, 4])] if tier == "quick" else \
        [("list", i, [0, 2]) for i in (1, 2, 4, 7, 11)] + [("list", 4, [1]), ("list", 8, [1]), ("strict", 0, [0, 1]), ("table", 0, [0]),
                                                    ("docmarks", 0, [0, 3, 4]), ("docmarks", 1, [3, 4]), ("mx1", 1, [3, 4]), ("mx5", 2, [3, 4]), ("mx2", 5, [3, 4]), ("mx4", 2, [3, 4]), ("mx6", 2, [3, 4])]
    for (sn, i) in ([("list", 0)] if tier == "quick" else [("list", 0), ("list", 1), ("list", 14), ("strict", 0), ("iso", 1)]):
        C_ = common.load({"schema": sn, "doc": i})
        spans = [(k, C_.pm.match[k] + 1) for k, t in enumerate(C_.tok) if t[0] == "open"][: (3 if tier == "quick" else 6)]
        for (o, c) in spans + [(0, C_.size)]:
            for ri in ([0, 1, 2, 5, 9, 10] if tier == "quick" else list(range(13))):
                if not _around_reachable(C_, o, c, ri):
                    continue                 # no gap / insert position makes this wrapper apply on [o, c): vacuous partition
                obs.append({"name": "prim-invert-around/%s#%d/%d-%d/r%d" % (sn, i, o, c, ri), "fn": "ob_prim_invert_around",
                            "P": {"schema": sn, "doc": i, "prim": True, "a": o, "b": c, "ras": [ri]}, "timeout": T, "allow_vacuous": True})
    for (sn, i) in ([("list", 9)] if tier == "quick" else [("list", 9), ("list", 5), ("basic", 1), ("strict", 0), ("table", 0)]):
        obs.append({"name": "markup-leaf/%s#%d" % (sn, i), "fn": "ob_markup_leaf", "P": {"schema": sn, "doc": i, "prim": True}, "timeout": T})
    for (sn, i, pks) in prim:
        p = {"schema": sn, "doc": i, "prim": True}
        if tier == "quick":
            p.update(slices=[0, 2, 5, 7, 12, 13, common.templates.nslices(sn)])    # last = the empty slice
        size = common.templates.doc(sn, i).content.size
        for pk in pks:
            for lo in (range(0, size + 1, 4) if pk == 0 else [0]):
                q = dict(p, pk=pk)
                if pk == 0:
                    q.update(alo=lo, ahi=lo + 4)
                obs.append({"name": "prim-invert/%s#%d/k%d/%d" % (sn, i, pk, lo), "fn": "ob_prim_invert", "P": q, "timeout": T})
    return obs
