"""C03 - a step's position map describes exactly what the step did to the document.

Engine E1: (i) the eight primitive step classes with symbolic integer fields, (ii) every step emitted by one
high-level Transform operation with symbolic arguments (21 operation kinds).  For each successfully applied
step the map's ranges are read directly (`.ranges`) and compared with the token-level change.
"""
from engine import rt
from harness import c01_steps, common, opcheck, ops, tlib

PROPERTY = "C03"
BOUNDS = ("catalogue documents; primitive steps as in C01 (quick: a subset of payloads); emitted steps: every operation "
          "kind of the transform API with range ends symbolic and payload index symbolic; replace-around steps also with an EMPTY gap")
ASSUMPTIONS = ["token identity outside the replaced ranges is asserted up to untyped close tokens; map-less steps (marks, attrs) may change marks/attrs of tokens but not their kind, text unit or type"]

P = opcheck.P


def judge(phase, tr, pre, n0, raised, ctx):
    if phase == "before":
        return None
    docs = list(tr.docs) + [tr.doc]
    for i in range(n0, len(tr.steps)):
        w = tlib.map_faithful(docs[i], tr.steps[i], docs[i + 1])
        if w:
            return "step %d (%s): %s" % (i, type(tr.steps[i]).__name__, w)
    return None


def configure(p):
    if p.get("prim"):
        c01_steps.configure(p)
        P.clear()
        P.update(p)
    else:
        opcheck.setup(p, judge, False)


def ob_op(a: int, b: int, x: int) -> bool:
    """post: _"""
    return rt.run(opcheck.body, a, b, x)


def prim_judge(step, doc):
    try:
        res = step.apply(doc)
    except ValueError:
        return True, None
    if res.failed is not None or res.doc is None:
        return True, None
    w = tlib.map_faithful(doc, step, res.doc)
    return w is None, w


def ob_prim_replace(a: int, b: int, si: int, structure: bool) -> bool:
    """post: _"""
    return rt.run(_prim_replace, a, b, si, structure)


def _prim_replace(a, b, si, structure):
    C = c01_steps.C
    if not (0 <= a <= b <= C.size and 0 <= si < len(C.slices)) or not c01_steps.chunk_ok(a):
        return rt.SKIP
    if C.is_split(a) or C.is_split(b):
        return rt.SKIP
    si = rt.pick(si, 0, len(C.slices) - 1)
    if "slices" in P and si not in P["slices"]:
        return rt.SKIP
    step = c01_steps.ReplaceStep(a, b, C.slices[si], structure)
    a, b = a, b
    ok, why = prim_judge(step, C.doc)
    return rt.fin(ok, why)


def ob_prim_around(a: int, b: int, ga: int, gb: int, ri: int, ins: int) -> bool:
    """post: _"""
    return rt.run(_prim_around, a, b, ga, gb, ri, ins)


def _prim_around(a, b, ga, gb, ri, ins):
    C = c01_steps.C
    if not (0 <= a <= ga <= gb <= b <= C.size and 0 <= ri < len(C.ras)):
        return rt.SKIP
    if ga != P["ga"] or gb != P["gb"]:
        return rt.SKIP
    for x in (a, b):
        if C.is_split(x):
            return rt.SKIP
    ri = rt.pick(ri, 0, len(C.ras) - 1)
    if "ras" in P and ri not in P["ras"]:
        return rt.SKIP
    sl, _nat = C.ras[ri]
    if not (0 <= ins <= sl.size):
        return rt.SKIP
    step = c01_steps.ReplaceAroundStep(a, b, ga, gb, sl, ins, False)
    ok, why = prim_judge(step, C.doc)
    return rt.fin(ok, why)


def ob_prim_mark(a: int, b: int, mi: int, kind: int) -> bool:
    """post: _"""
    return rt.run(_prim_mark, a, b, mi, kind)


def _prim_mark(a, b, mi, kind):
    """kind 0 add mark, 1 remove mark, 2 add node mark, 3 remove node mark, 4 attr step."""
    C = c01_steps.C
    if not C.marks or not (0 <= a <= b <= C.size and 0 <= mi < len(C.marks) and 0 <= kind < 5):
        return rt.SKIP
    if C.is_split(a) or C.is_split(b):
        return rt.SKIP
    kind, mi = rt.pick(kind, 0, 4), rt.pick(mi, 0, len(C.marks) - 1)
    if kind >= 2 and b != a:
        return rt.SKIP
    mk = C.marks[mi]
    step = [lambda: c01_steps.AddMarkStep(a, b, mk), lambda: c01_steps.RemoveMarkStep(a, b, mk),
            lambda: c01_steps.AddNodeMarkStep(a, mk), lambda: c01_steps.RemoveNodeMarkStep(a, mk),
            lambda: c01_steps.AttrStep(a, ["level", "order", "zz"][mi % 3], 2)][kind]()
    ok, why = prim_judge(step, C.doc)
    return rt.fin(ok, why)


QUICK = [("list", 3), ("list", 4), ("strict", 0)]


def obligations(tier, seed):
    T = 150 if tier == "quick" else 900
    obs = opcheck.op_obligations("quick" if tier == "quick" else "explicit", QUICK if tier == "quick" else
                                 [("list", 3), ("list", 4), ("list", 1), ("strict", 0), ("iso", 1), ("table", 0)], ops.KINDS, [], T,
                                 xs_quick=3 if tier == "quick" else 99, step_quick=4 if tier == "quick" else 3)
    prim = [("list", 1), ("list", 7)] if tier == "quick" else [("list", i) for i in (1, 2, 4, 7, 11)] + [("strict", 0), ("table", 0), ("iso", 0)]
    for (sn, i) in prim:
        p = {"schema": sn, "doc": i, "prim": True}
        if tier == "quick":
            p.update(slices=[0, 2, 5, 7, 12, 13, common.templates.nslices(sn)], ras=[0, 1, 2, 9, 10])    # last = the empty slice
        size = common.templates.doc(sn, i).content.size
        tag = "%s#%d" % (sn, i)
        for lo in range(0, size + 1, 4):
            obs.append({"name": "prim-replace/%s/%d" % (tag, lo), "fn": "ob_prim_replace", "P": dict(p, alo=lo, ahi=lo + 4), "timeout": T})
        obs.append({"name": "prim-mark/%s" % tag, "fn": "ob_prim_mark", "P": p, "timeout": T * 2})
        C_ = common.load(p)
        spans = [(k, C_.pm.match[k] + 1) for k, t in enumerate(C_.tok) if t[0] == "open"][: (3 if tier == "quick" else 10)]
        for (o, c) in spans:
            obs.append({"name": "prim-around/%s/gap=%d-%d" % (tag, o + 1, c - 1), "fn": "ob_prim_around",
                        "P": dict(p, ga=o + 1, gb=c - 1), "timeout": T})
    # replace-around steps with an EMPTY gap (two adjacent map ranges, the second of length 0): wrapping "nothing"
    for (sn, i, gaps) in ([("list", 0, [3])] if tier == "quick" else [("list", 0, [0, 3, 7]), ("list", 9, [1, 2]), ("strict", 0, [4])]):
        p = {"schema": sn, "doc": i, "prim": True}
        for g in gaps:
            obs.append({"name": "prim-around/%s#%d/emptygap=%d" % (sn, i, g), "fn": "ob_prim_around", "P": dict(p, ga=g, gb=g), "timeout": T})
    return obs
