"""Law checkers shared by the transform-level harnesses (C03 C04 C10 C11 C12 C13 C16 C17 C18).
All take real objects and concrete or symbolic ints; they read fields and call the oracles only."""
from engine import rt
from engine.oracle.tokens import doc_tokens, frag_tokens, leaves, leaves_nomarks, slice_tokens
from engine.oracle.valid import why_invalid


def is_subsequence(small, big):
    it = iter(big)
    return all(any(x == y for y in it) for x in small)


def starts_with(seq, prefix):
    return len(seq) >= len(prefix) and seq[:len(prefix)] == prefix


def ends_with(seq, suffix):
    return len(seq) >= len(suffix) and (seq[len(seq) - len(suffix):] == suffix)


def preservation(C, result, a, b, inserted_leaves_nomarks):
    """C11 content clause.  None if fine, else a reason."""
    tok = C.tok
    before = leaves(tok[:a])
    after = leaves(tok[b:])
    res = doc_tokens(result)
    lv = leaves(res)
    if not starts_with(lv, before):
        return "content before the range changed: %r vs %r" % (lv[:len(before) + 1], before)
    rest = lv[len(before):]
    if not ends_with(rest, after):
        return "content after the range changed: %r vs %r" % (rest[-(len(after) + 1):], after)
    mid = rest[:len(rest) - len(after)]
    midn = [(t[0], t[1]) + ((t[2],) if t[0] == "leaf" else ()) for t in mid]
    if not is_subsequence(midn, inserted_leaves_nomarks):
        return "content between is not a subsequence of the inserted content: %r vs %r" % (midn, inserted_leaves_nomarks)
    return None


def slice_leaves_nomarks(sl):
    return leaves_nomarks(frag_tokens(sl.content))


def node_leaves_nomarks(node):
    from engine.oracle.tokens import node_tokens
    out = []
    node_tokens(node, out)
    return leaves_nomarks(out)


def check_inv(tr, start_doc, first=0):
    """C04 alignment invariant of a Transform: lists aligned, docs chain through the steps, maps are the
    steps' maps.  None if fine."""
    n = len(tr.steps)
    if len(tr.docs) != n or len(tr.mapping.maps) != n:
        return "steps/docs/maps lengths differ: %d %d %d" % (n, len(tr.docs), len(tr.mapping.maps))
    docs = list(tr.docs) + [tr.doc]
    if n and docs[0] is not start_doc and not docs[0].eq(start_doc):
        return "docs[0] is not the starting document"
    if n == 0 and tr.doc is not start_doc:
        return "document changed without a step"
    for i in range(first, n):
        res = tr.steps[i].apply(docs[i])
        if res.failed is not None or res.doc is None:
            return "recorded step %d does not apply to recorded doc %d" % (i, i)
        if not res.doc.eq(docs[i + 1]) or res.doc.attrs != docs[i + 1].attrs:
            return "replaying step %d does not give recorded doc %d" % (i, i + 1)
        if tr.mapping.maps[i].ranges != tr.steps[i].get_map().ranges or tr.mapping.maps[i].inverted:
            return "map %d is not the map of step %d" % (i, i)
    return None


def check_undo(tr, first):
    """Inverting the steps from index `first` in reverse restores docs[first].  None if fine."""
    docs = list(tr.docs) + [tr.doc]
    cur = tr.doc
    for i in range(len(tr.steps) - 1, first - 1, -1):
        inv = tr.steps[i].invert(docs[i])
        res = inv.apply(cur)
        if res.failed is not None or res.doc is None:
            return "inverted step %d does not apply: %s" % (i, res.failed)
        cur = res.doc
        if not cur.eq(docs[i]) or cur.attrs != docs[i].attrs or (i == first and doc_tokens(cur) != doc_tokens(docs[i])):
            return "undoing step %d does not restore doc %d" % (i, i)
        # an inverted step's map is the inverse of the original's
        m1 = inv.get_map()
        m2 = tr.steps[i].get_map().invert()
        size = docs[i + 1].content.size
        # positions where the two maps could differ: around every range boundary (new coordinates)
        cand = {0, size}
        r = m1.ranges
        for k in range(0, len(r), 3):
            for q in (r[k] - 1, r[k], r[k] + 1, r[k] + r[k + 1] - 1, r[k] + r[k + 1], r[k] + r[k + 1] + 1):
                if 0 <= q <= size:
                    cand.add(q)
        for pos in sorted(cand):
            for assoc in (-1, 1):
                if m1.map(pos, assoc) != m2.map(pos, assoc):
                    return "inverted step %d maps %d differently from the inverted map" % (i, pos)
    return None


def map_faithful(before, step, after):
    """C03: the step's map describes the change.  None if fine."""
    ranges = step.get_map().ranges
    tb, ta = doc_tokens(before), doc_tokens(after)
    trip = [(ranges[i], ranges[i + 1], ranges[i + 2]) for i in range(0, len(ranges), 3)]
    if len(ta) - len(tb) != sum(n - o for (_s, o, n) in trip):
        return "size change %d is not the sum over the map's ranges %r" % (len(ta) - len(tb), ranges)
    mp = step.get_map()
    for i in range(len(tb)):
        inside = False
        shift = 0
        for (s, o, n) in trip:
            if s < i + 1 and i < s + o:          # token [i, i+1] overlaps the open interval (s, s+o)
                inside = True
            if s + o <= i:
                shift += n - o
        if inside:
            continue
        j = i + shift
        if not (0 <= j < len(ta)):
            return "token %d maps outside the new document" % i
        x, y = tb[i], ta[j]
        if x != y:
            if not ranges:
                # map-less steps (marks, attrs): same token kind, text unit / type preserved
                if x[0] != y[0] or (x[0] in ("t",) and x[1] != y[1]) or (x[0] in ("open", "leaf") and x[1] != y[1]):
                    return "token %d changed kind under a map-less step: %r -> %r" % (i, x, y)
            elif x[0] == "close" and y[0] == "close":
                pass
            else:
                return "token %d (%r) is not found unchanged at mapped index %d (%r)" % (i, x, j, y)
        if mp.map(i, 1) != j:
            # listed open finding (C03): the token sits exactly where a zero-length second range starts at the end of the
            # first range (a ReplaceAroundStep with an EMPTY gap) - StepMap consults only the first range that touches it
            adjacent = len(trip) == 2 and trip[1][1] == 0 and trip[0][0] + trip[0][1] == trip[1][0] == i
            if adjacent and mp.map(i, 1) == i + (shift - (trip[1][2] - trip[1][1])) \
                    and rt.known_mode("C03-empty-gap-replace-around-map"):
                continue
            return "map(%d, 1) = %d but the token moved to %d" % (i, mp.map(i, 1), j)
    return None
