"""C13 - adding and removing marks over a range has exactly the documented effect.

Engine E1: Transform.add_mark / remove_mark (mark, mark type, all) / add_node_mark / remove_node_mark /
set_node_attribute / set_block_type / set_node_markup run with the range ends (or position), the mark /
type index and the attribute value symbolic; token-wise comparison with the reference mark algebra
(engine/oracle/marks.py over the spec-derived exclusion relation).
"""
from engine import rt
from engine.oracle.marks import ref_add
from engine.oracle.tokens import doc_tokens, freeze, leaves_nomarks
from engine.oracle.valid import why_invalid
from harness import common, ops
from prosemirror.transform import Transform

PROPERTY = "C13"
BOUNDS = ("catalogue documents of the list/docmarks schemas and the six mark-exclusion schemas mx1..mx6 (excludes '', "
          "'_', groups, one-way and mutual exclusion, required attrs, non-inclusive); range ends / positions symbolic in "
          "range; every mark (two attribute variants where the type has attributes), mark type and textblock type")
ASSUMPTIONS = ["mutual exclusion resolved as upstream (see C14)", "positions splitting a surrogate pair excluded",
               "set_block_type: newline replacement is checked on the code_block template (list#4)"]

P = {}
C = None


def configure(p):
    global C
    P.clear()
    P.update(p)
    C = ops.payloads(common.load(p))


def fm(mark):
    return (mark.type.name, freeze(mark.attrs))


def ref_add_tok(ms, new):
    V = C.V
    rank = V.mark_rank
    return tuple(ref_add(list(ms), new, lambda m: rank[m[0]], lambda a, b: a == b, lambda a, b: V.excludes(a[0], b[0])))


def parents_of(tok):
    """For every token index the type name of the node that directly contains it."""
    out = []
    st = ["doc"]
    for t in tok:
        if t[0] == "close":
            st.pop()
            out.append(st[-1])
        else:
            out.append(st[-1])
            if t[0] == "open":
                st.append(t[1])
    return out


def is_inline_tok(t):
    return t[0] == "t" or (t[0] == "leaf" and t[1] in C.inline_types)


def chunk(a):
    return P.get("alo", 0) <= a < P.get("ahi", 10 ** 9)


def ob_range(a: int, b: int, mi: int) -> bool:
    """post: _"""
    return rt.run(_range, a, b, mi)


def _range(a, b, mi):
    op = P["op"]
    n = len(C.marks) if op in ("add", "remove") else (len(C.marktypes) if op == "remove_type" else 1)
    if n == 0 or not (0 <= a <= b <= C.size and 0 <= mi < n) or not chunk(a):
        return rt.SKIP
    if C.is_split(a) or C.is_split(b):
        return rt.SKIP
    mi = rt.pick(mi, 0, n - 1)
    tr = Transform(C.doc)
    if op == "add":
        tr.add_mark(a, b, C.marks[mi])
    elif op == "remove":
        tr.remove_mark(a, b, C.marks[mi])
    elif op == "remove_type":
        tr.remove_mark(a, b, C.marktypes[mi])
    else:
        tr.remove_mark(a, b, None)
    a, b = rt.pick(a, 0, C.size), rt.pick(b, 0, C.size)
    tok = C.tok
    res = doc_tokens(tr.doc)
    if len(res) != len(tok):
        return rt.fin(False, "token count changed")
    par = parents_of(tok)
    why = None
    for i, (x, y) in enumerate(zip(tok, res)):
        inside = a <= i < b and is_inline_tok(x)
        if not inside:
            if x != y:
                why = "token %d outside the range / not inline changed: %r -> %r" % (i, x, y)
                break
            continue
        old = x[2] if x[0] == "t" else x[3]
        new = y[2] if y[0] == "t" else y[3]
        if (x[0], x[1]) != (y[0], y[1]) or (x[0] == "leaf" and x[2] != y[2]):
            why = "token %d changed other than in its marks" % i
            break
        if op == "add":
            m = fm(C.marks[mi])
            want = ref_add_tok(old, m) if C.V.allows(par[i], m[0]) else old
        elif op == "remove":
            m = fm(C.marks[mi])
            want = tuple(k for k in old if k != m)
        elif op == "remove_type":
            want = tuple(k for k in old if k[0] != C.marktypes[mi].name)
        else:
            want = ()
        if new != want:
            why = "token %d: marks %r, expected %r (old %r)" % (i, new, want, old)
            break
    if why is None and why_invalid(tr.doc, C.V):
        why = "invalid result: " + why_invalid(tr.doc, C.V)
    return rt.fin(why is None, why)


def ob_node(pos: int, mi: int, kind: int, vi: int) -> bool:
    """post: _"""
    return rt.run(_node, pos, mi, kind, vi)


def _node(pos, mi, kind, vi):
    """Node-level mark / attribute edits change only the addressed node token."""
    nm = max(1, len(C.marks))
    if not (0 <= pos < C.size and 0 <= mi < nm and 0 <= kind < 3 and 0 <= vi < 3):
        return rt.SKIP
    kind, mi, vi = rt.pick(kind, 0, 2), rt.pick(mi, 0, nm - 1), rt.pick(vi, 0, 2)
    tr = Transform(C.doc)
    val = [2, "v", None][vi]
    attr = None
    try:
        if kind == 0:
            if not C.marks:
                return rt.SKIP
            tr.add_node_mark(pos, C.marks[mi])
        elif kind == 1:
            if not C.marks:
                return rt.SKIP
            tr.remove_node_mark(pos, C.marks[mi])
        else:
            n = C.doc.node_at(pos)
            names = sorted(n.attrs.keys()) if n is not None and n.attrs else []
            if not names:
                return rt.SKIP
            attr = names[mi % len(names)]
            tr.set_node_attribute(pos, attr, val)
    except ValueError:
        return rt.fin(tr.doc is C.doc or doc_tokens(tr.doc) == C.tok, "rejected edit changed the document")
    pos = rt.pick(pos, 0, C.size)
    tok = C.tok
    res = doc_tokens(tr.doc)
    why = None
    if len(res) != len(tok):
        why = "token count changed"
    else:
        # the addressed token: the node starting at pos; for text the whole text node (run of equal marks)
        lo, hi = pos, pos + 1
        if tok[pos][0] == "t":
            st = C.pm.stack(pos)
            s0, e0 = C.pm.span(st, len(st))
            for (x, y) in C.pm.items(s0, e0):
                if x <= pos < y:
                    lo, hi = x, y
        for i, (x, y) in enumerate(zip(tok, res)):
            if not (lo <= i < hi) and x != y:
                why = "token %d (not the addressed node at %d) changed: %r -> %r" % (i, pos, x, y)
                break
        if why is None and tok[pos][0] != "close":
            x, y = tok[pos], res[pos]
            old = x[2] if x[0] == "t" else x[3]
            new = y[2] if y[0] == "t" else y[3]
            if kind == 0:
                par = parents_of(tok)[pos]
                want = ref_add_tok(old, fm(C.marks[mi]))
                if new != want:
                    why = "add_node_mark: marks %r expected %r" % (new, want)
            elif kind == 1:
                want = tuple(k for k in old if k != fm(C.marks[mi]))
                if new != want:
                    why = "remove_node_mark: marks %r expected %r" % (new, want)
            else:
                if x[0] != "t":
                    oa = dict(x[2][1:])
                    na = dict(y[2][1:])
                    exp = dict(oa)
                    decl = C.V.nodes[x[1]].get("attrs") or {}
                    exp[attr] = val if val is not None or "default" not in decl[attr] else decl[attr]["default"]
                    if na != exp or new != old:
                        why = "set_node_attribute: attrs %r expected %r" % (na, exp)
    return rt.fin(why is None, why)


def ob_block_type(a: int, b: int, ti: int) -> bool:
    """post: _"""
    return rt.run(_block_type, a, b, ti)


def _block_type(a, b, ti):
    """set_block_type keeps the children of every retyped textblock minus what the new type cannot hold."""
    if not C.textblocks or not (0 <= a <= b <= C.size and 0 <= ti < len(C.textblocks)) or not chunk(a):
        return rt.SKIP
    if C.is_split(a) or C.is_split(b):
        return rt.SKIP
    ti = rt.pick(ti, 0, len(C.textblocks) - 1)
    t = C.textblocks[ti]
    tr = Transform(C.doc)
    tr.set_block_type(a, b, t, {"level": 2} if t.name == "heading" else None)
    a, b = rt.pick(a, 0, C.size), rt.pick(b, 0, C.size)
    w = why_invalid(tr.doc, C.V)
    if w:
        return rt.fin(False, "invalid result: " + w)
    # leaf-level: the new document's text/leaf sequence is the old one minus dropped children, with newlines
    # replaced by a space where the new type is not code
    old = leaves_nomarks(C.tok)
    new = leaves_nomarks(doc_tokens(tr.doc))
    sp = C.V.nodes[t.name]
    code = (sp.get("whitespace") or ("pre" if sp.get("code") else "normal")) == "pre"     # newlines survive in 'pre' types
    i = 0
    ok = True
    for x in old:
        if i < len(new) and (new[i] == x or (not code and x[0] == "t" and x[1] in (10, 13) and new[i] == ("t", 32))):
            i += 1
        # else: dropped (a child the new type cannot hold, or the \\n of a \\r\\n pair)
    ok = i == len(new)
    return rt.fin(ok, "set_block_type changed content: %r -> %r" % (old, new))


def ob_markup(pos: int, ti: int) -> bool:
    """post: _"""
    return rt.run(_markup, pos, ti)


def _markup(pos, ti):
    if not C.textblocks or not (0 <= pos < C.size and 0 <= ti < len(C.textblocks)):
        return rt.SKIP
    ti = rt.pick(ti, 0, len(C.textblocks) - 1)
    t = C.textblocks[ti]
    tr = Transform(C.doc)
    target = C.doc.node_at(pos)
    if target is None or target.is_leaf:
        return rt.SKIP                      # the statement is about nodes that have children
    try:
        tr.set_node_markup(pos, t, {"level": 3} if t.name == "heading" else None)
    except ValueError:
        return rt.fin(tr.doc is C.doc, "rejected set_node_markup changed the document")
    ok = leaves_nomarks(doc_tokens(tr.doc)) == leaves_nomarks(C.tok) or not tr.steps
    if tr.steps and C.doc.node_at(pos) is not None and not C.doc.node_at(pos).is_leaf:
        ok = ok and tr.doc.node_at(pos).type is t
    return rt.fin(ok, "set_node_markup changed content")


QUICK = [("list", 11), ("list", 5), ("list", 14), ("docmarks", 1), ("mx1", 1), ("mx1", 5), ("mx2", 3), ("mx3", 1), ("mx4", 4), ("mx5", 2), ("mx6", 3)]


def obligations(tier, seed):
    obs = []
    T = 150 if tier == "quick" else 900
    if tier == "quick":
        parts = [{"schema": s, "doc": i} for (s, i) in QUICK]
    else:
        parts = common.doc_partitions(["list", "docmarks", "mx1", "mx2", "mx3", "mx4", "mx5", "mx6", "basic"], tier)
    for p in parts:
        tag = "%s#%d" % (p["schema"], p["doc"])
        size = common.templates.doc(p["schema"], p["doc"]).content.size
        for op in ("add", "remove", "remove_type", "remove_all"):
            for lo in range(0, size + 1, 3):
                obs.append({"name": "%s/%s/%d" % (op, tag, lo), "fn": "ob_range", "P": dict(p, op=op, alo=lo, ahi=lo + 3), "timeout": T})
        obs.append({"name": "node/" + tag, "fn": "ob_node", "P": p, "timeout": T})
    bt = [("list", 4), ("list", 9), ("list", 12), ("ws", 0)] if tier == "quick" else [("list", i) for i in range(12)] + [("basic", 1), ("title", 2)]
    for (sn, i) in bt:
        p = {"schema": sn, "doc": i}
        size = common.templates.doc(sn, i).content.size
        for lo in range(0, size + 1, 4):
            obs.append({"name": "block_type/%s#%d/%d" % (sn, i, lo), "fn": "ob_block_type", "P": dict(p, alo=lo, ahi=lo + 4), "timeout": T})
        obs.append({"name": "markup/%s#%d" % (sn, i), "fn": "ob_markup", "P": p, "timeout": T})
    return obs
