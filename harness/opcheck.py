"""One symbolic high-level Transform operation, judged by a property-specific function.
Used by C03 (maps of emitted steps), C04 (alignment / undo), C10 (immutability)."""
from engine import rt
from harness import common, ops
from prosemirror.model import Slice
from prosemirror.transform import AddMarkStep, ReplaceStep, Transform

P = {}
CTX = {"C": None, "judge": None, "prefix": False}


def setup(p, judge, prefix):
    P.clear()
    P.update(p)
    CTX["C"] = ops.payloads(common.load(p))
    CTX["judge"] = judge
    CTX["prefix"] = prefix
    return CTX["C"]


def start_transform(C):
    """Transform carried through a fixed non-empty prefix (one replace and one mark step) so that
    len(steps) > 0 and uses of the un-sliced mapping become visible.  The prefix keeps the size."""
    tr = Transform(C.doc)
    if CTX["prefix"]:
        # insert and delete one paragraph at the end: two replace steps; then a mark step
        end = C.doc.content.size
        filler = C.schema.top_node_type.content_match.fill_before(C.doc.content.cut(0, 0), False)
        first = C.doc.first_child
        try:
            tr.step(ReplaceStep(end, end, Slice(C.doc.content.cut(end - C.doc.last_child.node_size, end), 0, 0)))
            tr.step(ReplaceStep(end, end + C.doc.last_child.node_size, Slice.empty))
        except ValueError:
            tr = Transform(C.doc)
        if C.marks:
            try:
                tr.step(AddMarkStep(0, 0, C.marks[0]))
            except ValueError:
                pass
    return tr


def refresh():
    """Rebuild the per-partition context from scratch (fresh document and payload objects), so that a mutation
    made on an earlier path - or during the vacuity twin - cannot hide in the 'before' snapshot of a later one."""
    with rt.untraced():
        CTX["C"] = ops.payloads(common.load({k: v for k, v in P.items() if k in ("schema", "doc", "expr")}))
        if CTX.get("on_refresh"):
            CTX["on_refresh"](CTX["C"])
    return CTX["C"]


def body(a, b, x):
    C = refresh() if CTX.get("fresh") else CTX["C"]
    kind = P["kind"]
    nx = ops.xrange_of(C, kind)
    if not (0 <= a <= C.size and 0 <= x < nx):
        return rt.SKIP
    if ops.uses_b(kind):
        if not (a <= b <= C.size):
            return rt.SKIP
    elif b != a:
        return rt.SKIP
    if not (P.get("alo", 0) <= a < P.get("ahi", 10 ** 9)):
        return rt.SKIP
    if C.is_split(a) or C.is_split(b):
        return rt.SKIP
    x = rt.pick(x, 0, nx - 1)
    if "xs" in P and x not in P["xs"]:
        return rt.SKIP
    tr = start_transform(C)
    n0 = len(tr.steps)
    pre = tr.doc
    pre_ctx = CTX["judge"]("before", tr, pre, n0, None, None)
    raised = None
    try:
        ops.run_op(C, tr, kind, a, b, x)
    except ops.Skip:
        return rt.SKIP
    except ValueError as e:
        raised = e
    a, b = rt.pick(a, 0, C.size), rt.pick(b, 0, C.size)
    why = CTX["judge"]("after", tr, pre, n0, raised, pre_ctx)
    return rt.fin(why is None, why)


def reachable(C, kind, lo, hi, xs):
    """Concrete pre-scan: is there an input in the chunk on which the operation is attempted at all?"""
    for a in range(lo, hi):
        if C.is_split(a):
            continue
        for b in (range(a, C.size + 1) if ops.uses_b(kind) else [a]):
            if C.is_split(b):
                continue
            for x in xs:
                try:
                    ops.run_op(C, Transform(C.doc), kind, a, b, x)
                    return True
                except ops.Skip:
                    continue
                except Exception:  # noqa: BLE001 - attempted (and rejected or failing): not vacuous
                    return True
    return False


def op_obligations(tier, quick_docs, kinds, schemas_thorough, T, xs_quick=3, step_quick=4):
    obs = []
    if tier in ("quick", "explicit"):
        parts = [{"schema": s, "doc": i} for (s, i) in quick_docs]
    else:
        parts = common.doc_partitions(schemas_thorough, tier)
    for p in parts:
        C = ops.payloads(common.load(p))
        tag = "%s#%d" % (p["schema"], p["doc"])
        for kind in kinds:
            nx = ops.xrange_of(C, kind)
            q = dict(p, kind=kind)
            if tier in ("quick", "explicit") and nx > xs_quick:
                stepx = max(1, nx // xs_quick)
                q["xs"] = list(range(0, nx, stepx))[:xs_quick]
            step = step_quick if ops.uses_b(kind) else 100
            if tier not in ("quick", "explicit"):
                step = 3 if ops.uses_b(kind) else 100
            for lo in range(0, C.size + 1, step):
                if not reachable(C, kind, lo, min(lo + step, C.size + 1), q.get("xs", range(nx))):
                    continue             # the operation's own precondition never holds in this chunk (would be vacuous)
                obs.append({"name": "%s/%s/%d" % (kind, tag, lo), "fn": "ob_op", "P": dict(q, alo=lo, ahi=lo + step), "timeout": T})
    return obs
