"""C06 - a content expression and its compiled matcher accept exactly the same sequences.

Engine E2a (direct z3): for every enumerated expression E the real Schema() compiles it (tokenizer,
parser, nfa, null_from, dfa, check_for_dead_ends); the compiled automaton is read back through the
public API and unrolled L times over a z3 string w; the expression is translated independently
(engine/oracle/cexpr.py) into a z3 regular expression.  Three queries per expression:
  complete : exists w, |w|<=L:  InRe(w, R_E)        xor  accept(delta*(w))
  prefix   : exists w, |w|<=L:  InRe(w, Pref(R_E))  xor  alive(delta*(w))
  dead-end : exists u in Pref(R_E) \\ R_E such that no generatable type extends it  <=>  Schema() rejects E
unsat = agreement on every child sequence up to length L (L = n_M + n_R, capped at 12).
Engine E1 ties match_fragment / match_type (public entry points) to the extracted table.
Malformed expressions (rejection clause) are concrete enumeration, reported separately.
"""
import itertools
import random
import re
import time

import z3

from engine import rt, smt_regex
from engine.oracle import cexpr, glushkov
from prosemirror.model import Fragment, Schema

PROPERTY = "C06"
BOUNDS = ("expressions: all syntax trees of size <= 3 (thorough <= 4) over name | seq | alt | ? | * | + | {2} | {1,} | "
          "{0,2} | {1,3} | {0,} | {0,1}, three alphabets (a b c; a b in group g + c; inline text/img/ref with a non-generatable "
          "ref), plus seeded larger expressions and the expressions used by the repository's schemas; child "
          "sequences up to L = n_M + n_R (cap 12)")
ASSUMPTIONS = ["the bounded verdict extends to all lengths only where L reached n_M + n_R and the determinised position automaton recognises L(E) (not discharged by the solver; counted in evidence as full_bound)"]
LCAP = 12

ALPHABETS = {
    "abc": {"names": ["a", "b", "c"],
            "nodes": {"a": {}, "b": {}, "c": {"attrs": {"k": {"default": None}}}}, "parent": "doc"},
    "grp": {"names": ["a", "b", "c", "g"],
            "nodes": {"a": {"group": "g"}, "b": {"group": "g"}, "c": {}}, "parent": "doc"},
    "inl": {"names": ["text", "img", "ref", "i"],
            "nodes": {"img": {"inline": True, "group": "i", "attrs": {"alt": {"default": None}}}, "ref": {"inline": True, "attrs": {"id": {}}}},
            "parent": "p"},
}
UNARY = ["?", "*", "+", "{2}", "{1,}", "{0,2}", "{1,3}", "{0,}", "{0,1}"]

P = {}


def configure(p):
    P.clear()
    P.update(p)


# ---- enumeration of expressions (as strings) -------------------------------------------------
def enum_exprs(names, size):
    """All expression strings of syntax-tree size exactly `size` -> list of (text, is_atomic)."""
    memo = {}

    def go(n):
        if n in memo:
            return memo[n]
        out = []
        if n == 1:
            out = [(x, True, "name") for x in names]
        else:
            for (t, atomic, kind) in go(n - 1):
                base = t if atomic else "(" + t + ")"
                for u in UNARY:
                    out.append((base + u, True, "un"))
            for k in range(1, n - 1):
                for (l, la, lk) in go(k):
                    for (r, ra, rk) in go(n - 1 - k):
                        ls = l if (la or lk == "seq") else "(" + l + ")"
                        rs = r if ra else "(" + r + ")"
                        out.append((ls + " " + rs, False, "seq"))
                        out.append((l + " | " + r, False, "alt"))
        memo[n] = out
        return out
    return [t for (t, _a, _k) in go(size)]


def seeded_exprs(names, count, seed):
    rnd = random.Random(seed)
    out = []
    for _ in range(count):
        size = rnd.randint(5, 8)

        def gen(n):
            if n <= 1:
                return rnd.choice(names), True
            c = rnd.random()
            if c < 0.4:
                t, a = gen(n - 1)
                return (t if a else "(" + t + ")") + rnd.choice(UNARY), True
            k = rnd.randint(1, n - 2) if n > 2 else 1
            l, la = gen(k)
            r, ra = gen(max(1, n - 1 - k))
            if c < 0.7:
                return (l if la else "(" + l + ")") + " " + (r if ra else "(" + r + ")"), False
            return l + " | " + r, False
        out.append(gen(size)[0])
    return out


def spec_for(alpha, expr):
    A = ALPHABETS[alpha]
    nodes = {}
    if A["parent"] == "doc":
        nodes["doc"] = {"content": expr}
        nodes["text"] = {}
    else:
        nodes["doc"] = {"content": "p+"}
        nodes["p"] = {"content": expr}
        nodes["text"] = {"group": "i"}
    for k, v in A["nodes"].items():
        nodes[k] = dict(v)
    return {"nodes": nodes}


def generatable(alpha):
    """Type names that can be created without content/attrs (not text, no required attrs)."""
    A = ALPHABETS[alpha]
    out = []
    for k, v in A["nodes"].items():
        attrs = v.get("attrs") or {}
        if all("default" in a for a in attrs.values()):
            out.append(k)
    return out


def analyse(alpha, expr, solver, stats):
    """-> None if everything agrees, else a counterexample dict.  Raises Inconclusive on unknown."""
    A = ALPHABETS[alpha]
    spec = spec_for(alpha, expr)
    ast = cexpr.parse(expr, spec["nodes"])
    types = sorted(cexpr.names_in(ast) | set(A["nodes"].keys()) | ({"text"} if alpha == "inl" else set()))
    types = [t for t in types if t in spec["nodes"] and t not in ("doc", "p")]
    letter = {t: chr(ord("a") + i) for i, t in enumerate(types)}
    R = smt_regex.to_z3(ast, letter)
    RP = smt_regex.to_z3(smt_regex.pref(ast), letter)
    w = z3.String("w")
    # ---- dead-end prediction -----------------------------------------------------------------
    gen = [t for t in generatable(alpha) if t in letter]
    solver.push()
    solver.add(z3.InRe(w, RP), z3.Not(z3.InRe(w, R)), z3.Length(w) <= LCAP)
    for t in gen:
        solver.add(z3.Not(z3.InRe(z3.Concat(w, z3.StringVal(letter[t])), RP)))
    r = check(solver, stats)
    dead_witness = smt_regex.model_word(solver.model(), w, letter) if r == "sat" else None
    solver.pop()
    try:
        schema = Schema(spec)
        built = True
    except Exception as e:  # noqa: BLE001 - the property only says "rejected"
        built = False
        err = type(e).__name__
    if built != (dead_witness is None):
        return {"kind": "deadend", "alpha": alpha, "expr": expr, "word": dead_witness, "schema_built": built}
    if not built:
        stats["rejected_deadend"] += 1
        return None
    states, _objs = smt_regex.extract(schema.nodes[A["parent"]].content_match)
    n_m = len(states) + 1
    n_r = glushkov.dfa_size(ast)
    L = min(LCAP, n_m + n_r)
    if L == n_m + n_r:
        stats["full_bound"] += 1
    stats["maxL"] = max(stats["maxL"], L)
    cur = smt_regex.run_states(states, w, L, letter)
    base = smt_regex.alphabet_constraint(w, L, [letter[t] for t in types])
    for kind, regex, real in (("complete", R, smt_regex.accept_term(states, cur)),
                              ("prefix", RP, cur != len(states))):
        solver.push()
        solver.add(*base)
        solver.add(z3.Xor(z3.InRe(w, regex), real))
        r = check(solver, stats)
        if r == "sat":
            word = smt_regex.model_word(solver.model(), w, letter)
            solver.pop()
            return {"kind": kind, "alpha": alpha, "expr": expr, "word": word}
        solver.pop()
    return None


class Inconclusive(Exception):
    pass


def check(solver, stats):
    t = time.time()
    r = str(solver.check())
    stats["solver_s"] += time.time() - t
    stats["queries"] += 1
    stats[r if r in ("sat", "unsat") else "unknown"] += 1
    if r not in ("sat", "unsat"):
        raise Inconclusive(r)
    return r


def exprs_for(p):
    names = ALPHABETS[p["alpha"]]["names"]
    if p["what"] == "enum":
        ex = enum_exprs(names, p["size"])
    elif p["what"] == "seeded":
        ex = seeded_exprs(names, p["count"], p["seed"])
    else:
        ex = list(p["exprs"])
    lo, hi = p.get("lo", 0), p.get("hi", len(ex))
    return ex[lo:hi]


def direct_equiv(p):
    from collections import Counter
    stats = Counter()
    stats["maxL"] = 0
    solver = z3.Solver()
    solver.set("timeout", 60000)
    exprs = exprs_for(p)
    samples = []
    inconcl = 0
    for ex in exprs:
        try:
            ce = analyse(p["alpha"], ex, solver, stats)
        except Inconclusive:
            inconcl += 1
            solver = z3.Solver()
            solver.set("timeout", 60000)
            continue
        if ce is not None:
            return {"status": "refuted", "ce": ce, "queries": stats["queries"], "sat": stats["sat"], "unsat": stats["unsat"],
                    "solver_s": stats["solver_s"], "paths": stats["queries"], "reached": stats["queries"]}
        if len(samples) < 3:
            samples.append(ex)
    out = {"status": "confirmed" if inconcl == 0 else "inconclusive", "queries": stats["queries"], "sat": stats["sat"],
           "unsat": stats["unsat"], "unknown": stats["unknown"], "solver_s": round(stats["solver_s"], 2),
           "paths": stats["queries"], "reached": len(exprs) - inconcl, "programs": len(exprs),
           "full_bound": stats["full_bound"], "maxL": stats["maxL"], "rejected_deadend": stats["rejected_deadend"],
           "witness_args": samples}
    if inconcl:
        out["detail"] = "%d expressions with solver result unknown" % inconcl
    return out


# ---- replay of a solver witness on plain CPython, against Python's `re` ---------------------------
def build_fragment(schema, word):
    nodes = []
    for t in word:
        if t == "text":
            nodes.append(schema.text("x"))
        elif t == "ref":
            nodes.append(schema.nodes["ref"].create({"id": 1}))
        else:
            nodes.append(schema.nodes[t].create())
    return Fragment(nodes)            # not from_array: neighbouring text nodes must stay separate children


def replay_equiv(p, ce):
    alpha, expr = ce["alpha"], ce["expr"]
    spec = spec_for(alpha, expr)
    ast = cexpr.parse(expr, spec["nodes"])
    letters = {t: chr(0x100 + i) for i, t in enumerate(spec["nodes"])}
    full = re.compile(cexpr.to_pyre(ast, letters))
    pre = re.compile(cexpr.to_pyre(smt_regex.pref(ast), letters))
    if ce["kind"] == "deadend":
        # brute force the dead-end condition over words up to length 6 with Python's re
        names = [t for t in spec["nodes"] if t not in ("doc", "p")]
        gen = generatable(alpha)
        dead = False
        for n in range(0, 7):
            for wd in itertools.product(names, repeat=n):
                s = "".join(letters[t] for t in wd)
                if pre.fullmatch(s) and not full.fullmatch(s) and not any(pre.fullmatch(s + letters[g]) for g in gen):
                    dead = True
                    break
            if dead:
                break
        try:
            Schema(spec)
            built = True
        except Exception:  # noqa: BLE001
            built = False
        return built == (not dead)
    schema = Schema(spec)
    m = schema.nodes[ALPHABETS[alpha]["parent"]].content_match.match_fragment(build_fragment(schema, ce["word"]))
    s = "".join(letters[t] for t in ce["word"])
    if ce["kind"] == "complete":
        return bool(m is not None and m.valid_end) == bool(full.fullmatch(s))
    return (m is not None) == bool(pre.fullmatch(s))


# ---- rejection clause (concrete) ------------------------------------------------------------------
MALFORMED = ["zz", "a zz", "(a", "a)", "a{2", "a{2,", "a{,2}", "a |", "| a", "a | | b", "a{x}", "()", "a**b(", "*", "a (", "{2}",
             "a{2,3", "(a | b", "a b)", "a+ )", "?", "a | )", "( | a)",
             "a{1_0}", "a{\u0663}", "a{1x}", "a{2,1_0}", "a{x1}"]         # numbers are ASCII digit strings only


def direct_reject(p):
    """Malformed expressions must be rejected by Schema(...); well-formed variants must build."""
    bad = []
    n = 0
    t0 = time.time()
    cands = list(MALFORMED)
    toks = ["a", "|", "(", ")", "*", "{", "}", "2", ","]
    for k in (1, 2, 3):
        for c in itertools.product(toks, repeat=k):
            cands.append(" ".join(c))
    nodes = {"a": {}, "b": {}}
    rejected = 0
    for ex in cands:
        n += 1
        spec = {"nodes": {"doc": {"content": ex}, "text": {}, "a": {}, "b": {}}}
        try:
            ast = cexpr.parse(ex, spec["nodes"])
            well = True
            # "{2,1}"-like ranges and mixed content are not produced by this token set
        except cexpr.CExprError:
            well = False
        try:
            Schema(spec)
            built = True
        except Exception:  # noqa: BLE001
            built = False
        if well != built:
            bad.append({"expr": ex, "reference_wellformed": well, "schema_built": built})
        rejected += (not built)
    # mixed inline/block content and unknown names
    for ex, nodes2 in (("a text", {}), ("text a", {}), ("(a | text)*", {}), ("img a", {"img": {"inline": True}})):
        n += 1
        try:
            Schema({"nodes": {"doc": {"content": ex}, "text": {}, "a": {}, **nodes2}})
            bad.append({"expr": ex, "reference_wellformed": False, "schema_built": True})
        except Exception:  # noqa: BLE001
            rejected += 1
    if bad:
        return {"status": "refuted", "ce": bad[0], "queries": 0, "paths": n, "reached": n}
    return {"status": "confirmed", "queries": 0, "paths": n, "reached": rejected, "programs": n,
            "witness_args": ["a{2,", "( | a)", "a text"], "solver_s": round(time.time() - t0, 2)}


def replay_reject(p, ce):
    ex = ce["expr"]
    try:
        Schema({"nodes": {"doc": {"content": ex}, "text": {}, "a": {}, "b": {}, "img": {"inline": True}}})
        built = True
    except Exception:  # noqa: BLE001
        built = False
    return built == ce["reference_wellformed"]


# ---- E1: public entry points agree with the extracted table -----------------------------------------
E1_EXPRS = [("abc", "a b* c?"), ("grp", "(g | c)+ a{1,3}"), ("abc", "(a{2})* c"), ("inl", "(text | img)* ref?")]
E1 = {}


def e1_setup():
    if E1:
        return
    for alpha, ex in E1_EXPRS:
        sch = Schema(spec_for(alpha, ex))
        par = sch.nodes[ALPHABETS[alpha]["parent"]]
        states, objs = smt_regex.extract(par.content_match)
        types = [t for t in sch.nodes if t not in ("doc", "p")]
        E1[(alpha, ex)] = (sch, par, states, objs, types)


def ob_match_fragment(t0: int, t1: int, t2: int, t3: int, k: int, start: int, end: int, q: int) -> bool:
    """post: _"""
    return rt.run(_match_fragment, t0, t1, t2, t3, k, start, end, q)


def _match_fragment(t0, t1, t2, t3, k, start, end, q):
    e1_setup()
    sch, par, states, objs, types = E1[tuple(P["e1"])]
    nt = len(types)
    if not (0 <= k <= 4 and 0 <= q < len(states)):
        return rt.SKIP
    if k != P["k"] or q != P["q"]:
        return rt.SKIP
    for t in (t0, t1, t2, t3):
        if not (0 <= t < nt):
            return rt.SKIP
    k = rt.pick(k, 0, 4)
    q = rt.pick(q, 0, len(states) - 1)
    ts = [rt.pick(t, 0, nt - 1) for t in (t0, t1, t2, t3)]
    for j in range(k, 4):
        if ts[j] != 0:
            return rt.SKIP
    word = [types[t] for t in ts[:k]]
    frag = build_fragment(sch, word)
    if not (0 <= start <= end <= k):
        return rt.SKIP
    m = objs[q].match_fragment(frag, start, end)          # start / end symbolic
    start, end = rt.pick(start, 0, 4), rt.pick(end, 0, 4)
    cur = q
    for tname in word[start:end]:
        nxt = [to for (tn, to) in states[cur]["edges"] if tn == tname]
        cur = nxt[0] if nxt else None
        if cur is None:
            break
    ok = (m is None) == (cur is None) and (m is None or m is objs[cur])
    if k > 0:
        mt = objs[q].match_type(sch.nodes[word[0]])
        nxt = [to for (tn, to) in states[q]["edges"] if tn == word[0]]
        ok = ok and ((mt is None) == (not nxt)) and (mt is None or mt is objs[nxt[0]])
    if end == k and start == 0:
        ok = ok and (objs[q].match_fragment(frag) is m)
    return rt.fin(ok, "match_fragment == fold of the extracted table")


def repo_exprs():
    from engine import schemas
    out = {}
    for sn in ("basic", "list", "strict", "title", "fixed", "iso", "table"):
        for n, sp in schemas.spec_of(sn)["nodes"].items():
            if sp.get("content"):
                out.setdefault(sn, set()).add(sp["content"])
    return out


def direct_repo(p):
    """Content expressions that occur in the repository's schemas, checked in their own schema."""
    from collections import Counter
    from engine import schemas
    stats = Counter()
    stats["maxL"] = 0
    solver = z3.Solver()
    solver.set("timeout", 60000)
    n = 0
    for sn in ("basic", "list", "strict", "title", "fixed", "iso", "table", "cx"):
        spec = schemas.spec_of(sn)
        schema = schemas.get(sn)
        for tname, sp in spec["nodes"].items():
            ex = sp.get("content")
            if not ex:
                continue
            n += 1
            ast = cexpr.parse(ex, spec["nodes"])
            types = [t for t in spec["nodes"]]
            letter = {t: chr(ord("A") + i) for i, t in enumerate(types)}
            R = smt_regex.to_z3(ast, letter)
            RP = smt_regex.to_z3(smt_regex.pref(ast), letter)
            w = z3.String("w")
            states, _ = smt_regex.extract(schema.nodes[tname].content_match)
            L = min(8, len(states) + 1 + glushkov.dfa_size(ast))
            cur = smt_regex.run_states(states, w, L, letter)
            base = smt_regex.alphabet_constraint(w, L, [letter[t] for t in types])
            for kind, regex, real in (("complete", R, smt_regex.accept_term(states, cur)), ("prefix", RP, cur != len(states))):
                solver.push()
                solver.add(*base)
                solver.add(z3.Xor(z3.InRe(w, regex), real))
                try:
                    r = check(solver, stats)
                except Inconclusive:
                    solver.pop()
                    return {"status": "inconclusive", "detail": "unknown for %s/%s" % (sn, tname), "queries": stats["queries"]}
                if r == "sat":
                    word = smt_regex.model_word(solver.model(), w, letter)
                    solver.pop()
                    return {"status": "refuted", "ce": {"kind": kind, "schema": sn, "type": tname, "word": word},
                            "queries": stats["queries"]}
                solver.pop()
    return {"status": "confirmed", "queries": stats["queries"], "unsat": stats["unsat"], "sat": stats["sat"],
            "solver_s": round(stats["solver_s"], 2), "paths": stats["queries"], "reached": n, "programs": n}


def replay_repo(p, ce):
    from engine import schemas
    schema = schemas.get(ce["schema"])
    spec = schemas.spec_of(ce["schema"])
    ast = cexpr.parse(spec["nodes"][ce["type"]].get("content"), spec["nodes"])
    letters = {t: chr(0x100 + i) for i, t in enumerate(spec["nodes"])}
    nodes = []
    for t in ce["word"]:
        nt = schema.nodes[t]
        if t == "text":
            nodes.append(schema.text("x"))
        else:
            attrs = {k: 1 for k, a in nt.attrs.items() if a.is_required} or None
            nodes.append(nt.create(attrs))
    m = schema.nodes[ce["type"]].content_match.match_fragment(Fragment(nodes))
    s = "".join(letters[t] for t in ce["word"])
    if ce["kind"] == "complete":
        return bool(m is not None and m.valid_end) == bool(re.fullmatch(cexpr.to_pyre(ast, letters), s))
    return (m is not None) == bool(re.fullmatch(cexpr.to_pyre(smt_regex.pref(ast), letters), s))


def obligations(tier, seed):
    obs = []
    maxsize = 3 if tier == "quick" else 4
    chunk = 40 if tier == "quick" else 60
    for alpha in ALPHABETS:
        names = ALPHABETS[alpha]["names"]
        for size in range(1, maxsize + 1):
            n = len(enum_exprs(names, size))
            for lo in range(0, n, chunk):
                obs.append({"name": "equiv/%s/size=%d/%d" % (alpha, size, lo), "fn": "direct_equiv", "kind": "direct",
                            "P": {"alpha": alpha, "what": "enum", "size": size, "lo": lo, "hi": lo + chunk}, "timeout": 900})
        cnt = 30 if tier == "quick" else 200
        for lo in range(0, cnt, 10):
            obs.append({"name": "equiv/%s/seeded/%d" % (alpha, lo), "fn": "direct_equiv", "kind": "direct",
                        "P": {"alpha": alpha, "what": "seeded", "count": cnt, "seed": seed * 7919 + 13, "lo": lo, "hi": lo + 10},
                        "timeout": 900})
    # open ranges next to an alternative, and nullable bounded ranges under a repetition (epsilon cycles in the NFA)
    obs.append({"name": "equiv/abc/explicit", "fn": "direct_equiv", "kind": "direct", "timeout": 900,
                "P": {"alpha": "abc", "what": "explicit",
                      "exprs": ["a{0,} | b", "b | a{0,}", "(a{0,} b)*", "c (a{0,} | b)", "(a{0,} | b) c", "(a{0,} | b){2}", "a{0,} c | b",
                                "(a{0,1})*", "(a{0,1} b{0,1})*", "(a | b{0,1})+", "(a{0,1}){1,}", "((a b?){0,1})*", "((a?){1})*",
                                "(a{0,1} | b)*", "a{2,} | b", "(a{1,} | b) c"]}})
    obs.append({"name": "repo-expressions", "fn": "direct_repo", "kind": "direct", "P": {}, "timeout": 900})
    obs.append({"name": "reject-malformed", "fn": "direct_reject", "kind": "direct", "P": {}, "timeout": 900})
    e1_setup()
    for e1 in E1_EXPRS:
        nstates = len(E1[e1][2])
        for q in range(nstates):
            for k in ((1, 3) if tier == "quick" else (0, 1, 2, 3, 4)):
                obs.append({"name": "entry-points/%s/%s/q=%d/k=%d" % (e1[0], e1[1], q, k), "fn": "ob_match_fragment",
                            "P": {"e1": list(e1), "q": q, "k": k}, "timeout": 300})
    return obs
