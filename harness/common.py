"""Shared per-partition context for harnesses: schema, template document, token model."""
from engine import schemas, templates
from engine.oracle.posmodel import PosModel
from engine.oracle.tokens import doc_tokens, frag_tokens, no_adjacent_mergeable_text
from engine.oracle.valid import SpecView, why_invalid


class Ctx:
    def is_split(self, x):
        """x lies between the two units of a surrogate pair (symbolic-friendly: compares with the
        concrete list of such positions instead of indexing the token list with x)."""
        for sp in self.splits:
            if x == sp:
                return True
        return False


_views = {}


def view(schema_name):
    if schema_name not in _views:
        _views[schema_name] = SpecView(schemas.spec_of(schema_name))
    return _views[schema_name]


def load(p):
    """p: {"schema": name, "doc": index | "expr": template expression}"""
    c = Ctx()
    c.schema_name = p["schema"]
    c.schema = schemas.get(c.schema_name)
    c.V = view(c.schema_name)
    c.expr = p["expr"] if "expr" in p else templates.docs(c.schema_name)[p["doc"]]
    p = {k: v for k, v in p.items() if k in ("schema", "doc", "expr")}
    c.doc = templates.build(c.schema_name, c.expr)
    c.tok = doc_tokens(c.doc)
    c.size = len(c.tok)
    c.pm = PosModel(c.tok)
    from engine.oracle.tokens import splits_surrogate
    c.splits = [i for i in range(1, len(c.tok)) if splits_surrogate(c.tok, i)]
    c.inline_types = {n for n in c.V.nodes if c.V.is_inline(n)}
    c.noninclusive = {m for m, sp in c.V.marks.items() if sp.get("inclusive") is False}
    assert c.doc.content.size == c.size
    assert why_invalid(c.doc, c.V) is None, (c.expr, why_invalid(c.doc, c.V))
    assert no_adjacent_mergeable_text(c.doc)
    return c


THOROUGH = {"list": [1, 2, 4, 5, 7, 11, 12], "basic": [1, 2], "strict": [0, 1], "title": [0, 3], "fixed": [0, 1], "docmarks": [0, 1],
            "iso": [0, 1, 3], "table": [0, 1], "ni": [0, 1], "mx1": [1], "mx2": [3], "mx3": [1], "mx4": [4], "mx5": [2], "mx6": [3]}


def doc_partitions(schema_names, tier, quick_n=2, seed=0, max_size=None):
    if tier == "thorough":
        # the thorough tier is sized to roughly twenty minutes per property on 16 cores: a fixed, feature-covering
        # subset of the catalogue (all payloads) instead of every template
        return [{"schema": sn, "doc": i} for sn in schema_names for i in THOROUGH.get(sn, [0])
                if max_size is None or templates.doc(sn, i).content.size <= max_size]
    return _doc_partitions(schema_names, tier, quick_n, seed, max_size)


def _doc_partitions(schema_names, tier, quick_n=2, seed=0, max_size=None):
    """[{schema, doc}] - quick takes quick_n templates per schema rotated by seed."""
    out = []
    for sn in schema_names:
        n = len(templates.docs(sn))
        idx = list(range(n))
        if max_size is not None:
            idx = [i for i in idx if templates.doc(sn, i).content.size <= max_size]
        if tier == "quick" and len(idx) > quick_n:
            k = seed % len(idx)
            idx = (idx[k:] + idx[:k])[:quick_n]
        for i in idx:
            out.append({"schema": sn, "doc": i})
    return out
