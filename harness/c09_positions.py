"""C09 - positions resolve, index and traverse consistently, counting UTF-16 units.

Engine E1: the real ResolvedPos / Fragment / Node position code is executed with the position(s),
the depth argument and range ends as solver integers on each catalogue document.  Each harness
body first *observes* the real accessors (symbolically), then realises the inputs of that path and
computes the expected values from the flat-token reference (engine/oracle/posmodel.py) untraced.
"""
from engine import rt
from engine.oracle.tokens import fmarks, frag_tokens, node_tokens, splits_surrogate, u16
from harness import common

PROPERTY = "C09"
BOUNDS = ("two templates whose text is 1..3 solver-chosen characters of {a, U+00E9, U+1F600}; catalogue documents (<= 25 tokens, depth <= 4, incl. astral text, non-inclusive marks, leaf and "
          "empty nodes); pos in [-3, size+3] where out-of-range must raise ValueError (the error message formats the "
          "position, which would realise an unbounded integer value by value); pos2 and range ends in range; depth "
          "argument unbounded (checked inside [-depth, depth+1])")
ASSUMPTIONS = ["depth arguments outside [-depth, depth] (+1 for before/after) are outside the claim",
               "positions that split a surrogate pair are excluded from the cut-based accessors (node_before/after, text_between)"]

P = {}
C = None


def configure(p):
    global C
    P.clear()
    P.update(p)
    C = common.load(p)


def sub(node):
    if node is None:
        return None
    out = []
    node_tokens(node, out)
    return out


def markup(node):
    return (node.type.name, fmarks(node.marks), frag_tokens(node.content))


def exp_markup(st, d):
    pm, tok = C.pm, C.tok
    lo, hi = pm.span(st, d)
    if d == 0:
        return ("doc", (), tok[lo:hi])
    o = tok[st[d - 1]]
    return (o[1], o[3], tok[lo:hi])


# --------------------------------------------------------------------------------------------
def ob_resolve(pos: int, d: int) -> bool:
    """post: _"""
    return rt.run(_resolve, pos, d)


def _resolve(pos, d):
    doc = C.doc
    if not (-3 <= pos <= C.size + 3):
        return rt.SKIP
    if not (P.get("alo", -3) <= pos < P.get("ahi", C.size + 4)):
        return rt.SKIP
    got = {}
    try:
        r = doc.resolve(pos)
    except ValueError:
        r = None
        got["raises"] = True
    if r is not None:
        got.update(depth=r.depth, pos=r.pos, isdoc=r.doc is doc, parent_offset=r.parent_offset,
                   text_offset=r.text_offset, parent=markup(r.parent), index=r.index())
        depth = r.depth
        if -depth <= d <= depth:
            got.update(node=markup(r.node(d)), index_d=r.index(d), index_after=r.index_after(d),
                       start=r.start(d), end=r.end(d))
            for nm, f in (("before", r.before), ("after", r.after)):
                try:
                    got[nm] = f(d)
                except ValueError:
                    got[nm] = "ValueError"
            n = r.node(d).child_count
            got["pos_at_index"] = [r.pos_at_index(k, d) for k in range(n + 1)]
        elif d == depth + 1:
            got.update(before=r.before(d), after=r.after(d))
    pos = rt.pick(pos, -3, C.size + 3)
    dmax = (got["depth"] + 1) if "depth" in got else 0
    d = rt.pick(d, -dmax, dmax) if -dmax <= d <= dmax else 99       # outside: one representative
    with rt.untraced():
        pm = C.pm
        oor = not (0 <= pos <= C.size)
    if oor:
        return rt.fin(got == {"raises": True}, "out-of-range position must raise ValueError: %r" % (got,))
    with rt.untraced():
        st = pm.stack(pos)
        depth = len(st)
        lo, hi = pm.span(st, depth)
        idx, after, toff = pm.index_info(st, depth, pos, depth)
        want = dict(depth=depth, pos=pos, isdoc=True, parent_offset=pos - lo, text_offset=toff,
                    parent=exp_markup(st, depth), index=idx)
        if -depth <= d <= depth:
            ad = depth + d if d < 0 else d
            lo, hi = pm.span(st, ad)
            idx, after, _ = pm.index_info(st, ad, pos, depth)
            its = pm.items(lo, hi)
            want.update(node=exp_markup(st, ad), index_d=idx, index_after=after, start=lo, end=hi,
                        before=("ValueError" if ad == 0 else lo - 1), after=("ValueError" if ad == 0 else hi + 1),
                        pos_at_index=[x for (x, y) in its] + [hi])
        elif d == depth + 1:
            want.update(before=pos, after=pos)
    return rt.fin(got == want, rt.first_diff(got, want))


def ob_around(pos: int) -> bool:
    """post: _"""
    return rt.run(_around, pos)


def _around(pos):
    """node_before / node_after / marks() / node_at / child_after / child_before."""
    doc, tok = C.doc, C.tok
    if not (0 <= pos <= C.size):
        return rt.SKIP
    if C.is_split(pos):
        return rt.SKIP
    r = doc.resolve(pos)
    par = r.parent
    off = r.parent_offset
    ca, cb = par.child_after(off), par.child_before(off)
    got = dict(node_before=sub(r.node_before), node_after=sub(r.node_after), marks=fmarks(r.marks()),
               node_at=sub(doc.node_at(pos)),
               child_after=(sub(ca["node"]), ca["index"], ca["offset"]),
               child_before=(sub(cb["node"]), cb["index"], cb["offset"]))
    pos = rt.pick(pos, 0, C.size)
    with rt.untraced():
        pm = C.pm
        st = pm.stack(pos)
        depth = len(st)
        lo, hi = pm.span(st, depth)
        its = pm.items(lo, hi)
        wb = wa = None
        for (a, b) in its:
            if a < pos <= b:
                wb = tok[a:pos]
            if a <= pos < b:
                wa = tok[pos:b]
        want = dict(node_before=wb, node_after=wa, marks=pm.ref_marks_at(pos, C.noninclusive))
        # node_at(pos): the node starting at pos (for text: the text node holding the unit after pos)
        na = None
        if pos < C.size and tok[pos][0] != "close":
            t = tok[pos]
            if t[0] == "t":
                a, b = [(a, b) for (a, b) in its if a <= pos < b][0]
                na = tok[a:b]
            else:
                na = tok[pos:(pm.match[pos] + 1 if t[0] == "open" else pos + 1)]
        want["node_at"] = na
        ia = [(k, a, b) for k, (a, b) in enumerate(its) if a <= pos < b]
        ib = [(k, a, b) for k, (a, b) in enumerate(its) if a < pos <= b]
        want["child_after"] = (tok[ia[0][1]:ia[0][2]], ia[0][0], ia[0][1] - lo) if ia else (None, len(its), pos - lo)
        want["child_before"] = (tok[ib[0][1]:ib[0][2]], ib[0][0], ib[0][1] - lo) if ib else (None, 0, 0)
    if got["child_before"][0] is None:
        got["child_before"] = (None, 0, 0)
    return rt.fin(got == want, rt.first_diff(got, want))


def ob_pair(pos: int, pos2: int) -> bool:
    """post: _"""
    return rt.run(_pair, pos, pos2)


def _pair(pos, pos2):
    doc, tok = C.doc, C.tok
    if not (0 <= pos <= C.size and 0 <= pos2 <= C.size):
        return rt.SKIP
    if not (P.get("alo", 0) <= pos < P.get("ahi", C.size + 1)):
        return rt.SKIP
    r = doc.resolve(pos)
    r2 = doc.resolve(pos2)
    br = r.block_range(r2)
    got = dict(shared=r.shared_depth(pos2), same_parent=r.same_parent(r2), max=r.max(r2).pos, min=r.min(r2).pos,
               br=None if br is None else (br.depth, br.start, br.end, br.start_index, br.end_index, markup(br.parent)))
    ma = r.marks_across(r2)
    got["marks_across"] = None if ma is None else fmarks(ma)
    pos, pos2 = rt.pick(pos, 0, C.size), rt.pick(pos2, 0, C.size)
    with rt.untraced():
        pm = C.pm
        want = dict(shared=pm.shared_depth(pos, pos2), same_parent=pm.stack(pos) == pm.stack(pos2),
                    max=max(pos, pos2), min=min(pos, pos2))
        a, b = (pos, pos2) if pos <= pos2 else (pos2, pos)
        st, st2 = pm.stack(a), pm.stack(b)
        depth = len(st)
        par_type = "doc" if depth == 0 else tok[st[-1]][1]
        dd = depth - (1 if (C.V.inline_content(par_type) or a == b) else 0)
        wd = None
        while dd >= 0:
            lo, hi = pm.span(st, dd)
            if b <= hi:
                wd = dd
                break
            dd -= 1
        if wd is None:
            want["br"] = None
        else:
            lo, hi = pm.span(st, wd)
            its = pm.items(lo, hi)
            sa = st[wd] if wd < depth else a
            eb = pm.match[st2[wd]] + 1 if wd < len(st2) else b
            si = len([1 for (x, y) in its if y <= sa])
            ei = len([1 for (x, y) in its if y <= eb]) if wd < len(st2) else len([1 for (x, y) in its if x < eb])
            want["br"] = (wd, sa, eb, si, ei, exp_markup(st, wd))
        # marks_across(end): marks of the inline node after pos, minus non-inclusive ones missing after end
        sp = pm.stack(pos)
        lo, hi = pm.span(sp, len(sp))
        aft = [(x, y) for (x, y) in pm.items(lo, hi) if x <= pos < y]
        if not aft or not pm.is_inline_item(aft[0][0], C.inline_types):
            want["marks_across"] = None
        else:
            se = pm.stack(pos2)
            lo2, hi2 = pm.span(se, len(se))
            nxt = [(x, y) for (x, y) in pm.items(lo2, hi2) if x <= pos2 < y]
            nm = pm.marks_of_item(nxt[0][0]) if nxt else None
            want["marks_across"] = tuple(m for m in pm.marks_of_item(aft[0][0])
                                         if not (m[0] in C.noninclusive and (nm is None or m not in nm)))
    return rt.fin(got == want, rt.first_diff(got, want))


def ob_between(a: int, b: int) -> bool:
    """post: _"""
    return rt.run(_between, a, b)


def _between(a, b):
    doc, tok = C.doc, C.tok
    if not (0 <= a <= b <= C.size):
        return rt.SKIP
    if not (P.get("alo", 0) <= a < P.get("ahi", C.size + 1)):
        return rt.SKIP
    raw = []
    doc.nodes_between(a, b, lambda n, p, par, i: raw.append((n, p, par, i)) and None)
    with rt.untraced():      # the visited nodes are the document's own (concrete) nodes
        subs = [(sub(n), sub(par) if par is not doc else "doc") for (n, _p, par, _i) in raw]
    got = dict(nodes=[(sn, p, sp, i) for (sn, sp), (_n, p, _par, i) in zip(subs, raw)])
    surr = C.is_split(a) or C.is_split(b)
    if not surr:
        got["text"] = u16(doc.text_between(a, b))
        got["text_sep"] = [u for u in u16(doc.text_between(a, b, "|", "*")) if u not in (124, 42)]
    got["has_mark"] = {m: doc.range_has_mark(a, b, mt) for m, mt in C.schema.marks.items()}
    a, b = rt.pick(a, 0, C.size), rt.pick(b, 0, C.size)
    with rt.untraced():
        pm = C.pm
        wn = []

        def walk(lo, hi, pk):
            for k, (x, y) in enumerate(pm.items(lo, hi)):
                if y > a and x < b:
                    wn.append((tok[x:y], x, "doc" if pk is None else tok[pk:pm.match[pk] + 1], k))
                    if tok[x][0] == "open":
                        walk(x + 1, y - 1, x)
        walk(0, C.size, None)
        want = dict(nodes=wn)
        units = [t[1] for t in tok[a:b] if t[0] == "t"]
        if not surr:
            want["text"] = units
            want["text_sep"] = [u for u in units if u not in (124, 42)]
        hm = {}
        for m in C.schema.marks:
            hm[m] = b > a and any(any(mm[0] == m for mm in pm.marks_of_item(x)) for (_s, x, _p, _k) in wn)
        want["has_mark"] = hm
    return rt.fin(got == want, rt.first_diff(got, want))


def ob_find_index(pos: int, up: bool) -> bool:
    """post: _"""
    return rt.run(_find_index, pos, up)


def _find_index(pos, up):
    frag = C.doc.content
    if not (-3 <= pos <= C.size + 3):
        return rt.SKIP
    got = {}
    try:
        r = frag.find_index(pos, 1 if up else -1)
        got = dict(index=r["index"], offset=r["offset"], size=frag.size, n=frag.child_count,
                   sizes=[frag.child(k).node_size for k in range(frag.child_count)])
    except ValueError:
        got = {"raises": True}
    pos, up = rt.pick(pos, -3, C.size + 3), rt.pickb(up)
    with rt.untraced():
        pm = C.pm
        oor = not (0 <= pos <= C.size)
    if oor:
        return rt.fin(got == {"raises": True}, "find_index out of range must raise")
    with rt.untraced():
        its = pm.items(0, C.size)
        w = None
        for k, (x, y) in enumerate(its):
            if x == pos:
                w = (k, x)
            elif x < pos < y:
                w = (k + 1, y) if up else (k, x)
        if pos == C.size:
            w = (len(its), pos)
        want = dict(index=w[0], offset=w[1], size=C.size, n=len(its), sizes=[y - x for (x, y) in its])
    return rt.fin(got == want, rt.first_diff(got, want))


TEXT_ALPH = ["a", "\u00e9", "\U0001F600"]
TEXT_TEMPLATES = ['doc(p("@", em("@b")), p("c"))', 'doc(h1("x@"), ul(li(p(a()("@"), "y"))))']


def ob_textvar(k: int, c0: int, c1: int, c2: int, a: int, b: int) -> bool:
    """post: _"""
    return rt.run(_textvar, k, c0, c1, c2, a, b)


def _textvar(k, c0, c1, c2, a, b):
    """The solver also chooses the text: 1..3 characters from an alphabet with a 2-byte and an astral character are
    substituted into a template, then the range accessors and the position accessors are checked as above."""
    global C
    n = len(TEXT_ALPH)
    if not (1 <= k <= 3 and 0 <= c0 < n and 0 <= c1 < n and 0 <= c2 < n):
        return rt.SKIP
    if (k < 3 and c2 != 0) or (k < 2 and c1 != 0):
        return rt.SKIP
    if k != P["k"] or c0 != P["c0"]:
        return rt.SKIP
    k, c0, c1, c2 = rt.pick(k, 1, 3), rt.pick(c0, 0, n - 1), rt.pick(c1, 0, n - 1), rt.pick(c2, 0, n - 1)
    txt = "".join(TEXT_ALPH[c] for c in (c0, c1, c2)[:k])
    with rt.untraced():
        C = common.load({"schema": "list", "expr": TEXT_TEMPLATES[P["tt"]].replace("@", txt)})
    if not (0 <= a <= b <= C.size):
        return rt.SKIP
    ok = _between(a, b)
    if ok is True and a == b:
        ok = _around(a)
    return ok


QUICK = {"list": [7, 5, 3], "basic": [2], "iso": [3], "table": [0], "mx6": [1], "ni": [0, 1]}


def obligations(tier, seed):
    obs = []
    if tier == "quick":
        parts = [{"schema": s, "doc": i} for s, ix in QUICK.items() for i in ix]
    else:
        parts = common.doc_partitions(list(common.templates.DOCS.keys()), tier)
    T = 100 if tier == "quick" else 600
    for p in parts:
        tag = "%s#%d" % (p["schema"], p["doc"])
        size = common.templates.doc(p["schema"], p["doc"]).content.size
        for lo in range(-3, size + 4, 8):
            q = dict(p, alo=lo, ahi=lo + 8)
            obs.append({"name": "resolve/%s/%d-%d" % (tag, lo, lo + 8), "fn": "ob_resolve", "P": q, "timeout": T})
        obs.append({"name": "around/" + tag, "fn": "ob_around", "P": p, "timeout": T})
        obs.append({"name": "find_index/" + tag, "fn": "ob_find_index", "P": p, "timeout": T})
        step = 4 if size > 12 else 8
        for lo in range(0, size + 1, step):
            q = dict(p, alo=lo, ahi=min(size + 1, lo + step))
            obs.append({"name": "pair/%s/%d-%d" % (tag, q["alo"], q["ahi"]), "fn": "ob_pair", "P": q, "timeout": T})
            obs.append({"name": "between/%s/%d-%d" % (tag, q["alo"], q["ahi"]), "fn": "ob_between", "P": q, "timeout": T})
    for tt in range(len(TEXT_TEMPLATES)):
        for k in ((1, 2) if tier == "quick" else (1, 2, 3)):
            for c0 in range(len(TEXT_ALPH)):
                obs.append({"name": "textvar/%d/k=%d/c0=%d" % (tt, k, c0), "fn": "ob_textvar",
                            "P": {"schema": "list", "doc": 0, "tt": tt, "k": k, "c0": c0}, "timeout": T * 2})
    return obs
