"""C19 repro: HTML import totality/validity and export->import identity.

Run from the library checkout:  cd /tmp/hunt_wt_C19 && /venv/bin/python /tmp/hunt_out/C19/repro.py
"""
import os
import signal
import sys
import warnings

sys.path.insert(0, os.getcwd())
warnings.simplefilter("ignore")

import lxml.html  # noqa: E402

from prosemirror.model import DOMSerializer, Fragment, Node, Slice  # noqa: E402
from prosemirror.model.from_dom import (  # noqa: E402
    DOMParser,
    ParseContext,
    ParseOptions,
    ParseRule,
    from_html,
)
from prosemirror.test_builder import out, test_schema as S  # noqa: E402

doc, p, li, ul, ol, em, strong, a, bq, img, br, hr, pre = (
    out[k] for k in "doc p li ul ol em strong a blockquote img br hr pre".split()
)


class Hang(Exception):
    pass


def _alarm(*_a):
    raise Hang()


signal.signal(signal.SIGALRM, _alarm)
found = 0


def report(tag, reproduced, detail):
    global found
    if reproduced:
        found += 1
        print(f"[{tag}] REPRODUCED: {detail}")
    else:
        print(f"[{tag}] not reproduced ({detail})")


def parse(html, schema=S):
    """-> ("ok", doc) | ("invalid", doc, msg) | ("exc", ExcTypeName, msg)"""
    signal.alarm(3)
    try:
        d = Node.from_json(schema, from_html(schema, html))
        try:
            d.check()
        except Exception as e:  # noqa: BLE001
            return ("invalid", d, str(e))
        return ("ok", d)
    except Hang:
        return ("exc", "HANG", "")
    except BaseException as e:  # noqa: BLE001
        return ("exc", type(e).__name__, str(e))
    finally:
        signal.alarm(0)


def frag(h):
    return lxml.html.fragment_fromstring(h, create_parent="document-fragment")


def R(**kw):
    return ParseRule.from_json(kw)


ser = DOMSerializer.from_schema(S)

# F1 ------------------------------------------------------------------
# NodeContext.apply_pending applies a pending mark inside a node that forbids it.
d0 = doc(pre("some code"))
html = str(ser.serialize_fragment(d0.content))
r = parse(html)
rep1 = r[0] == "invalid" or (r[0] == "ok" and not r[1].eq(d0))
r2 = parse("<pre><b>x</b></pre>")
r3 = parse("<em><pre>x</pre></em>")
report(
    "F1 marks applied inside code_block (apply_pending)",
    rep1 and r2[0] == "invalid" and r3[0] == "invalid",
    f"serialize(doc(code_block('some code'))) = {html!r}; parsing it back gives {r[1] if r[0] != 'exc' else r} "
    f"-> {r[0]}: {r[2] if r[0] == 'invalid' else ''}; '<pre><b>x</b></pre>' -> {r2[1] if r2[0] != 'exc' else r2} ({r2[0]})",
)

# F2 ------------------------------------------------------------------
# whitespace-only / nbsp-only text nodes are discarded before parsing.
d0 = doc(p(strong("a"), " ", em("b")))
html = str(ser.serialize_fragment(d0.content))
r = parse(html)
rn = parse("<p>&nbsp;</p>")
rs = parse("<p>a<span> </span>b</p>")
rc = parse("<pre><code>  </code></pre>")
report(
    "F2 whitespace-only text between inline elements dropped",
    r[0] == "ok" and not r[1].eq(d0),
    f"{html!r} -> {r[1] if r[0] != 'exc' else r} (expected {d0}); '<p>&nbsp;</p>' -> {rn[1] if rn[0] != 'exc' else rn} "
    f"(expected paragraph('\\u00a0')); '<p>a<span> </span>b</p>' -> {rs[1] if rs[0] != 'exc' else rs}; "
    f"'<pre><code>  </code></pre>' -> {rc[1] if rc[0] != 'exc' else rc}",
)

# F3 ------------------------------------------------------------------
r = parse("<ul></ul>")
r2 = parse("<p>x</p><ol> </ol>")
report(
    "F3 empty list crashes normalize_list",
    r[0] == "exc" and r2[0] == "exc",
    f"'<ul></ul>' -> {r[1:]} ; '<p>x</p><ol> </ol>' -> {r2[1:]}",
)

# F4 ------------------------------------------------------------------
r = parse("<p>a<!-- note -->b</p>")
r2 = parse("<p>a<!----> b</p>")
r3 = parse("<p>a</p><?php x ?><p>b</p>")
report(
    "F4 HTML comment / processing instruction crashes parser",
    r[0] == "exc" and r2[0] == "exc",
    f"'<p>a<!-- note -->b</p>' -> {r[1:]}; '<p>a<!----> b</p>' -> {r2[1:]}; PI -> {r3[1:] if r3[0] == 'exc' else r3[1]}",
)

# F5 ------------------------------------------------------------------
r = parse("<p><img></p>")
r2 = parse("<p><a name='top'>x</a></p>")
report(
    "F5 attribute-less <img>/<a> crash (bundled rules lack [src]/[href])",
    r[0] == "exc" and r2[0] == "exc",
    f"'<p><img></p>' -> {r[1:]}; \"<p><a name='top'>x</a></p>\" -> {r2[1:]}",
)

# F6 ------------------------------------------------------------------
r = parse("<p><span style='font-style: italic'>Hello</span>!</p>")
exp = doc(p(em("Hello"), "!"))
P = DOMParser.from_schema(S)
try:
    P.match_style("color", "red", ParseContext(P, ParseOptions(), False))
    ms = "no exception"
except Exception as e:  # noqa: BLE001
    ms = f"{type(e).__name__}: {e}"
report(
    "F6 inline style rules never fire (style string joined per character); match_style raises on foreign property",
    r[0] == "ok" and not r[1].eq(exp) and ms.startswith("ValueError"),
    f"style='font-style: italic' -> {r[1] if r[0] != 'exc' else r} (expected {exp}); "
    f"DOMParser.match_style('color','red',cx) -> {ms}",
)

# F7 ------------------------------------------------------------------
try:
    s1 = P.parse_slice(frag("<p>hello</p>"))
    s2 = P.parse_slice(frag("<div><img src=x></div><div><br></div>"))
    e1 = Slice(Fragment.from_([p("hello")]), 1, 1)
    e2 = Slice(Fragment.from_([p(S.node("image", {"src": "x"})), p(br)]), 1, 1)
    report(
        "F7 parse_slice loses all text; textblock_from_context skips attr-less paragraph",
        (not s1.eq(e1)) and (not s2.eq(e2)),
        f"parse_slice('<p>hello</p>') = {s1} (expected {e1}); "
        f"parse_slice('<div><img src=x></div><div><br></div>') = {s2} (expected {e2})",
    )
except Exception as e:  # noqa: BLE001
    report("F7 parse_slice", True, f"raised {type(e).__name__}: {e}")

# F8 ------------------------------------------------------------------
try:
    d = DOMParser(S, [R(tag="div.x", skip=True), *DOMParser.schema_rules(S)]).parse(
        frag("<div class=x><p>one</p></div>")
    )
    sk = f"ok {d}"
except Exception as e:  # noqa: BLE001
    sk = f"{type(e).__name__}: {e}"
try:
    d = DOMParser(
        S, [R(tag="div.w", node="blockquote", contentElement="section"), *DOMParser.schema_rules(S)]
    ).parse(frag("<div class=w><h1>no</h1><section><p>in</p></section><p>after</p></div>"))
    ce = str(d)
    ce_bad = not d.eq(doc(bq(p("in"))))
except Exception as e:  # noqa: BLE001
    ce = f"{type(e).__name__}: {e}"
    ce_bad = True
report(
    "F8 rule options: skip=True crashes; contentElement selector string mis-handled",
    sk.startswith("ValueError") and ce_bad,
    f"skip=True -> {sk}; contentElement='section' -> {ce} (expected {doc(bq(p('in')))})",
)

# F9 ------------------------------------------------------------------
d0 = doc(ol({"order": 3}, li(p("a"))))
html = str(ser.serialize_fragment(d0.content))
r = parse(html)
report(
    "F9 ordered_list start attribute not read back (bundled ol rule has no getAttrs)",
    r[0] == "ok" and not r[1].eq(d0),
    f"{html!r} -> order={r[1].first_child.attrs if r[0] == 'ok' else r} (expected order 3)",
)

# F10 -----------------------------------------------------------------
ra = parse("<ul><li></li><ul><li>x</li></ul></ul>")
rb = parse("<ul><li><ul><li>x</li></ul></li></ul>")  # what normalize_list should have produced
report(
    "F10 normalize_list ignores an empty previous <li> (lxml element truthiness)",
    ra[0] == "ok" and rb[0] == "ok" and not ra[1].eq(rb[1]),
    f"un-normalised -> {ra[1] if ra[0] != 'exc' else ra}; pre-normalised -> {rb[1] if rb[0] != 'exc' else rb} (must be equal)",
)

# F11 -----------------------------------------------------------------
r = parse("<blockquote>" * 250 + "x" + "</blockquote>" * 250)
report(
    "F11 RecursionError at ~250 nested elements",
    r[0] == "exc" and r[1] == "RecursionError",
    f"250 nested <blockquote> -> {r[1] if r[0] == 'exc' else 'ok'}",
)

# F12 -----------------------------------------------------------------
try:
    d = P.parse(frag("<p>a</p><p>b</p>"), ParseOptions(from_=0, to_=2))
    m = f"ok {d}"
except Exception as e:  # noqa: BLE001
    m = f"{type(e).__name__}: {e}"
report(
    "F12 ParseOptions(to_=child count) raises IndexError",
    m.startswith("IndexError"),
    f"parse('<p>a</p><p>b</p>', from_=0, to_=2) -> {m} (expected doc(p('a'), p('b')))",
)

# F13 -----------------------------------------------------------------
try:
    d = DOMParser(S, [R(tag="br", ignore=True), *DOMParser.schema_rules(S)]).parse(frag("<p>a</p><br>"))
    exp = doc(p("a"), p())
    report(
        "F13 ignore_fallback condition inverted (missing not)",
        not d.eq(exp),
        f"ignored <br> after a paragraph -> {d} (upstream opens an inline context: {exp})",
    )
except Exception as e:  # noqa: BLE001
    report("F13 ignore_fallback", True, f"raised {type(e).__name__}: {e}")

sys.exit(1 if found else 0)
