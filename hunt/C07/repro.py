"""C07 repro: run from the checkout directory:  cd /tmp/hunt_wt_C07 && /venv/bin/python /tmp/hunt_out/C07/repro.py"""
import os
import sys

sys.path.insert(0, os.getcwd())  # make sure the checkout, not an installed copy, is imported

from prosemirror.model import Fragment, Node, Schema  # noqa: E402

found = 0


def line(tag, ok, detail):
    global found
    if ok:
        found += 1
        print(f"[{tag}] REPRODUCED: {detail}")
    else:
        print(f"[{tag}] not reproduced")


def inline_schema(expr):
    return Schema({
        "nodes": {
            "doc": {"content": "para+"},
            "para": {"content": expr},
            "text": {"group": "inline"},
            "img": {"inline": True, "group": "inline"},
            "br": {"inline": True, "group": "inline"},
        },
    })


# F1: "{0,}" loops back onto the *entry* NFA node, which is shared with the enclosing
# star / choice, so the DFA accepts sequences the expression does not describe.
try:
    s = inline_schema("(text{0,} img)*")
    para = s.nodes["para"]
    t = lambda: s.text("x", None)  # noqa: E731
    img = lambda: s.nodes["img"].create()  # noqa: E731
    br = lambda: s.nodes["br"].create()  # noqa: E731
    frag = Fragment([t()])  # "text" alone: an iteration must end in img
    v1 = para.valid_content(frag)
    try:
        s.node("para", None, frag).check()
        v2 = True
    except ValueError:
        v2 = False
    good = para.create(None, Fragment([t(), img()]))
    v3 = good.can_replace(1, 2)  # delete the img -> [text]  (invalid)
    v4 = good.can_replace_with(1, 2, s.nodes["text"])  # -> [text, text] (invalid)
    s2 = inline_schema("br | text{0,} img")
    v5 = s2.nodes["para"].valid_content(
        Fragment([s2.text("x"), s2.nodes["br"].create()]),
    )  # "text br" matches neither alternative
    # control: the equivalent spelling with "*" is handled correctly
    c = inline_schema("(text* img)*")
    ctl = c.nodes["para"].valid_content(Fragment([c.text("x")]))
    line(
        "F1 '{0,}' inside star/choice over-accepts",
        v1 and v2 and v3 and v4 and v5 and not ctl,
        f"'(text{{0,}} img)*': valid_content([text])={v1}, Schema.node+check ok={v2}, "
        f"can_replace(1,2) on [text,img]={v3}, can_replace_with(1,2,text)={v4}; "
        f"'br | text{{0,}} img': valid_content([text,br])={v5}; control '(text* img)*' [text]={ctl}",
    )
except Exception as e:  # noqa: BLE001
    line("F1 '{0,}' inside star/choice over-accepts", False, repr(e))

# F2: "{0,n}" inside a loop makes Schema construction die with RecursionError
hits = []
for expr in ["img{0,1}+", "img{0,1}*", "(br | img{0,1})+", "(img{0,1})*"]:
    try:
        inline_schema(expr)
    except RecursionError:
        hits.append(expr)
    except Exception:  # noqa: BLE001
        pass
try:
    inline_schema("img?+")
    ctl_ok = True
except Exception:  # noqa: BLE001
    ctl_ok = False
line(
    "F2 '{0,n}' under +/* -> RecursionError in Schema()",
    bool(hits),
    f"Schema() raises RecursionError (null_from.scan) for para content {hits}; control 'img?+' builds={ctl_ok}",
)

# F3 (outside C07 proper, found on the way): start state's edges are in ascending NFA order,
# all other states descending -> default_type / fill_before / create_and_fill pick the wrong branch
try:
    s = Schema({
        "nodes": {
            "doc": {"content": "heading* paragraph"},
            "paragraph": {"content": "text*"},
            "heading": {"content": "text*"},
            "text": {},
        },
    })
    d = s.nodes["doc"]
    filled = d.create_and_fill()
    order = [e.type.name for e in d.content_match.next]
    dup = d.content_match.match_type(s.nodes["heading"])
    order_dup = [e.type.name for e in dup.next]
    line(
        "F3 start-state edge order reversed (create_and_fill/default_type)",
        str(filled) == "doc(heading, paragraph)" and order == ["heading", "paragraph"],
        f"'heading* paragraph': doc.create_and_fill() = {filled} (upstream: doc(paragraph)); "
        f"start edges {order} vs equivalent duplicate state after a heading {order_dup}; "
        f"default_type={d.content_match.default_type}",
    )
except Exception as e:  # noqa: BLE001
    line("F3 start-state edge order reversed", False, repr(e))

# F4: Mark.eq uses Python dict ==, so attrs 1 / True (0 / False) are "the same mark";
# check() then rejects a canonical set of two distinct non-self-excluding marks
try:
    s = Schema({
        "nodes": {"doc": {"content": "para+"}, "para": {"content": "text*"}, "text": {}},
        "marks": {"m": {"attrs": {"k": {"default": 0}}, "excludes": ""}},
    })
    m = s.marks["m"]

    def ok(a, b):
        d = s.node("doc", None, [s.node("para", None, [s.text("x", [m.create({"k": a}), m.create({"k": b})])])])
        try:
            d.check()
            return True
        except ValueError:
            return False

    line(
        "F4 Mark.eq conflates 1/True",
        ok(1, 2) and not ok(1, True),
        f"marks m(k=1),m(k=2) check ok={ok(1, 2)}; m(k=1),m(k=True) check ok={ok(1, True)} (JS: distinct marks, ok)",
    )
except Exception as e:  # noqa: BLE001
    line("F4 Mark.eq conflates 1/True", False, repr(e))

sys.exit(1 if found else 0)
