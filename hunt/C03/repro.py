"""C03 repro script. Run from the checkout directory:
    cd /tmp/hunt_wt_C03 && /venv/bin/python /tmp/hunt_out/C03/repro.py
Prints one line per finding, exits 1 if anything reproduced.
"""
import sys

sys.path.insert(0, ".")

from prosemirror.model import Fragment, Node, Schema, Slice  # noqa: E402
from prosemirror.test_builder import out, test_schema  # noqa: E402
from prosemirror.transform import (  # noqa: E402
    AttrStep,
    ReplaceAroundStep,
    Transform,
)

reproduced = 0


def line(tag, ok, msg):
    global reproduced
    if ok:
        reproduced += 1
        print(f"[{tag}] REPRODUCED: {msg}")
    else:
        print(f"[{tag}] not reproduced")


# --------------------------------------------------------------------------
# F1: ReplaceAroundStep with an empty gap: the two map ranges are adjacent /
# coincide, and StepMap.map stops at the first one.  The token directly after
# the step (outside both replaced ranges) is not found at the mapped position.
def f1():
    doc = out["doc"](out["p"]("a"), out["p"]("b"))
    hits = []
    # (a) from == gapFrom == gapTo == to : pure insertion "around" an empty gap
    step = ReplaceAroundStep(3, 3, 3, 3, Slice(Fragment.from_(out["blockquote"](out["p"]())), 0, 0), 2)
    res = step.apply(doc)
    if not res.failed:
        m = step.get_map()
        # old token at 3 = open tag of paragraph "b"; lies outside every replaced range
        want = res.doc.content.size - (doc.content.size - 3)  # = 7
        got = m.map(3, 1)
        same = res.doc.resolve(got).node_after
        if got != want:
            hits.append(
                f"(a) ranges={m.ranges} new doc={res.doc}: map(3,1)={got}, but the "
                f"paragraph that was at 3 is now at {want} (node after mapped pos: {same})"
            )
    # (b) gapFrom == gapTo == to, non-empty first range
    step = ReplaceAroundStep(0, 3, 3, 3, Slice(Fragment.from_([out["p"]("x"), out["p"]("y")]), 0, 0), 3)
    res = step.apply(doc)
    if not res.failed:
        m = step.get_map()
        want = res.doc.content.size - (doc.content.size - 3)  # = 6
        got = m.map(3, 1)
        if got != want:
            hits.append(f"(b) ranges={m.ranges} new doc={res.doc}: map(3,1)={got}, token moved to {want}")
        # and Transform.mapping inherits it
        tr = Transform(doc).step(step)
        if tr.mapping.map(3, 1) != want:
            hits.append(f"(b') Transform.mapping.map(3,1)={tr.mapping.map(3, 1)} != {want}")
    line("F1 empty-gap ReplaceAroundStep map unfaithful", bool(hits), " | ".join(hits))


# --------------------------------------------------------------------------
# F2 (side finding, outside the letter of C03): attribute value None is
# conflated with "not given" in compute_attrs, so AttrStep(pos, attr, None)
# resets to the default instead of storing null, or raises out of Step.apply
# when the attribute has no default.  Upstream tests `given === undefined`.
def f2():
    doc = out["doc"](out["h2"]("hi"), out["p"](out["img"]()))
    hits = []
    r = AttrStep(0, "level", None).apply(doc)
    if not r.failed and r.doc.child(0).attrs["level"] is not None:
        hits.append(f"AttrStep(0,'level',None) on h2 gives level={r.doc.child(0).attrs['level']!r} (upstream: null)")
    try:
        r = AttrStep(5, "src", None).apply(doc)
        if r.failed:
            hits.append(f"AttrStep(5,'src',None) failed: {r.failed}")
    except Exception as e:  # noqa: BLE001
        hits.append(f"AttrStep(5,'src',None).apply raised {type(e).__name__}: {e} (upstream: applies, src=null)")
    j = {"type": "doc", "content": [{"type": "heading", "attrs": {"level": None}}]}
    lvl = Node.from_json(test_schema, j).child(0).attrs["level"]
    if lvl is not None:
        hits.append(f"Node.from_json level=null -> {lvl!r}")
    line("F2 None attr value treated as missing (AttrStep / compute_attrs)", bool(hits), " | ".join(hits))


# --------------------------------------------------------------------------
# F3 (side finding, shared with upstream): Fitter keeps open_start after it
# consumed the open first node; a shallower following sibling then makes
# find_fittable dereference None (AttributeError), or gives the leftover slice
# size 0 so trailing content is silently dropped.
def f3():
    s = Schema({
        "nodes": {
            "doc": {"content": "block+"},
            "para": {"content": "inline*", "group": "block"},
            "hr": {"group": "block"},
            "card": {"content": "para+", "group": "block"},
            "text": {"group": "inline"},
            "tag": {"inline": True, "group": "inline", "content": "text*"},
        },
    })
    n = s.nodes
    doc = n["doc"].create(None, [n["card"].create(None, [n["para"].create()])])
    para = n["para"].create(None, [n["tag"].create(None, [s.text("ab")]), s.text("qr")])
    sl = Slice(Fragment.from_([para, n["hr"].create()]), 2, 0)
    hits = []
    try:
        Transform(doc).replace(1, 1, sl)
    except (AttributeError, TypeError) as e:
        hits.append(f"replace(1,1,{sl}) on {doc} raised {type(e).__name__}: {e}")
    except Exception:  # noqa: BLE001
        pass
    d2 = out["doc"](out["ul"](out["li"](out["p"]("x"))))
    sl2 = Slice(Fragment.from_([out["li"](out["p"]("a")), out["p"]()]), 2, 0)
    try:
        tr = Transform(d2).replace(1, 1, sl2)
        if tr.doc.child_count == 1 and tr.doc.child(0).child_count == 2:
            hits.append(f"replace(1,1,{sl2}) -> {tr.doc}: trailing closed paragraph silently dropped")
    except Exception:  # noqa: BLE001
        pass
    line("F3 Fitter stale open_start: crash / dropped content", bool(hits), " | ".join(hits))


for f in (f1, f2, f3):
    try:
        f()
    except Exception as e:  # noqa: BLE001
        print(f"[{f.__name__}] not reproduced (script error {type(e).__name__}: {e})")

sys.exit(1 if reproduced else 0)
