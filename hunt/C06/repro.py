"""C06 repro: run from the library checkout: /venv/bin/python /tmp/hunt_out/C06/repro.py"""
import signal
import sys

from prosemirror.model import Schema
from prosemirror.schema.basic.schema_basic import marks as basic_marks
from prosemirror.schema.basic.schema_basic import nodes as basic_nodes

found = 0


class Hang(Exception):
    pass


def _alarm(*_):
    raise Hang


signal.signal(signal.SIGALRM, _alarm)


def basic_with_doc(content):
    nodes = {k: dict(v) for k, v in basic_nodes.items()}
    nodes["doc"] = {"content": content}
    signal.alarm(3)
    try:
        return Schema({"nodes": nodes, "marks": basic_marks})
    finally:
        signal.alarm(0)


def report(tag, ok, msg):
    global found
    if ok:
        found += 1
        print(f"[{tag}] REPRODUCED: {msg}")
    else:
        print(f"[{tag}] not reproduced")


def accepts(schema, names):
    """does the doc content matcher accept this sequence of child type names as complete content"""
    m = schema.nodes["doc"].content_match
    for n in names:
        m = m.match_type(schema.nodes[n])
        if m is None:
            return False
    return m.valid_end


# F1: X{0,} loops on the shared entry state, so sibling alternatives stay available after X
try:
    s = basic_with_doc("heading | paragraph{0,}")
    ref = basic_with_doc("heading | paragraph*")  # same regular language
    seq = ["paragraph", "heading"]
    got, want = accepts(s, seq), accepts(ref, seq)
    # also through the public document API
    p = s.node("paragraph")
    h = s.node("heading", {"level": 1})
    try:
        s.node("doc", None, [p, h]).check()
        built = True
    except Exception:
        built = False
    s2 = basic_with_doc("(heading | paragraph{0,}) horizontal_rule")
    got2 = accepts(s2, ["paragraph", "heading", "horizontal_rule"])
    report(
        "F1 open range {0,} inside a choice leaks sibling alternatives",
        got and not want and built and got2,
        f"doc content 'heading | paragraph{{0,}}' accepts [paragraph, heading] (matcher={got}, "
        f"schema.node('doc',..).check() passes={built}); equivalent 'heading | paragraph*' accepts={want}; "
        f"'(heading | paragraph{{0,}}) horizontal_rule' accepts [paragraph, heading, horizontal_rule]={got2}",
    )
except Exception as e:  # noqa: BLE001
    print(f"[F1 open range {{0,}} inside a choice leaks sibling alternatives] not reproduced ({type(e).__name__}: {e})")

# F2: valid expressions whose compilation never terminates (unbounded recursion in null_from)
bad = []
for expr in ["(paragraph{0,1})*", "(heading{0,1} paragraph{0,1})*", "(heading | paragraph{0,1})+", "(blockquote{0,1}){1,}", "((heading paragraph?){0,1})*", "((paragraph?){1})*"]:
    try:
        basic_with_doc(expr)
    except RecursionError:
        bad.append(expr + " -> RecursionError")
    except Hang:
        bad.append(expr + " -> hang >3s")
    except Exception as e:  # noqa: BLE001
        bad.append(f"{expr} -> {type(e).__name__}")
report(
    "F2 Schema() fails with RecursionError on valid expressions (finite range with nullable body under a loop)",
    bool(bad),
    "; ".join(bad),
)

# F3: malformed expressions: wrong exception type, or silently accepted
bad = []
for expr, what in [
    ("paragraph |", "dangling choice"),
    ("(", "unclosed group"),
    ("paragraph (", "unclosed group"),
    ("paragraph{", "unclosed range"),
    ("paragraph{1,", "unclosed range"),
    ("paragraph{1x}", "non-numeric range bound"),
    ("paragraph{1_0}", "non-numeric range bound"),
    ("paragraph{٣}", "non-ASCII digit range bound"),
]:
    try:
        s = basic_with_doc(expr)
        n, m = 0, s.nodes["doc"].content_match
        while m.match_type(s.nodes["paragraph"]) and n < 50:
            m = m.match_type(s.nodes["paragraph"])
            n += 1
        bad.append(f"{expr!r} ({what}) ACCEPTED as paragraph{{{n}}}")
    except SyntaxError:
        pass
    except Exception as e:  # noqa: BLE001
        bad.append(f"{expr!r} ({what}) -> {type(e).__name__} instead of SyntaxError")
report("F3 malformed expressions escape as TypeError/AssertionError/ValueError or are accepted", bool(bad), "; ".join(bad))

# F4: depth limit: each DFA state costs one Python stack frame in dfa.explore
bad = []
for expr in ["paragraph{1000}", " ".join(["paragraph"] * 1100)]:
    try:
        basic_with_doc(expr)
    except RecursionError:
        bad.append(expr[:30] + ("..." if len(expr) > 30 else "") + " -> RecursionError")
    except Hang:
        pass
report("F4 long but valid expressions overflow the Python stack (recursive subset construction)", bool(bad), "; ".join(bad))

sys.exit(1 if found else 0)
