"""C14 repro: run from the checkout dir:  /venv/bin/python /tmp/hunt_out/C14/repro.py"""
import sys

from prosemirror.model import Schema
from prosemirror.model.mark import Mark
from prosemirror.transform import Transform

schema = Schema(
    {
        "nodes": {
            "doc": {"content": "paragraph+"},
            "paragraph": {"content": "text*"},
            "text": {},
        },
        "marks": {
            # annotation-style mark, several may coexist (upstream docs example)
            "comment": {"attrs": {"id": {}}, "excludes": ""},
            "flag": {"attrs": {"on": {"default": False}}},
            "hl": {"attrs": {"color": {"default": "red"}}},
        },
    }
)
found = 0


def report(tag, ok, detail):
    global found
    if ok:
        found += 1
        print(f"[{tag}] REPRODUCED: {detail}")
    else:
        print(f"[{tag}] not reproduced")


# F1: same_set is positional; two same-rank marks end up in insertion order, so
# two reachable sets with identical members compare unequal.
c1, c2 = schema.mark("comment", {"id": 1}), schema.mark("comment", {"id": 2})
A = c2.add_to_set(c1.add_to_set(Mark.none))  # [c1, c2]
B = c1.add_to_set(c1.remove_from_set(A))  # [c2, c1]
members_equal = all(m.is_in_set(B) for m in A) and all(m.is_in_set(A) for m in B)
doc = schema.node("doc", None, [schema.node("paragraph", None, [schema.text("ab")])])
tr = Transform(doc).add_mark(1, 2, c1).add_mark(1, 3, c2).add_mark(2, 3, c1)
para = tr.doc.child(0)
report(
    "F1 same_set order-sensitive for same-rank marks",
    members_equal and not Mark.same_set(A, B) and para.child_count == 2,
    f"A ids={[m.attrs['id'] for m in A]} B ids={[m.attrs['id'] for m in B]} "
    f"same members={members_equal} same_set={Mark.same_set(A, B)}; "
    f"add_mark x3 leaves {para.child_count} unmerged text nodes: {tr.doc}",
)

# F2: attrs compared with Python ==, so True == 1 / False == 0 identify distinct marks
f1, ft = schema.mark("flag", {"on": 1}), schema.mark("flag", {"on": True})
res = ft.add_to_set([f1])
report(
    "F2 bool/int attrs conflated (True == 1)",
    f1.eq(ft) and ft.is_in_set([f1]) and res is not None and type(res[0].attrs["on"]) is int,
    f"flag(on=1).eq(flag(on=True))={f1.eq(ft)}; adding flag(on=True) to [flag(on=1)] "
    f"returns set unchanged with on={res[0].attrs['on']!r} (JS: not equal, replaced)",
)

# F3 (adjacent to C14, attribute computation): explicit None attr value is treated as missing
hl = schema.mark("hl", {"color": None})
try:
    schema.mark("comment", {"id": None})
    raised = None
except ValueError as e:
    raised = e
report(
    "F3 explicit None attr treated as absent",
    hl.attrs["color"] == "red" and raised is not None,
    f"mark('hl', color=None).attrs={hl.attrs} (JS keeps null); "
    f"mark('comment', id=None) raises {type(raised).__name__}: {raised} (JS accepts null)",
)

sys.exit(1 if found else 0)
