"""C18 repro - run from the checkout directory:
    cd /tmp/hunt_wt_C18 && /venv/bin/python /tmp/hunt_out/C18/repro.py
"""
import os
import sys

sys.path.insert(0, os.getcwd())  # import the checkout, not an installed copy

from prosemirror.model import Fragment, Schema, Slice  # noqa: E402
from prosemirror.schema.basic import schema as basic  # noqa: E402
from prosemirror.transform import Transform  # noqa: E402

reproduced = 0


def report(tag, ok, detail):
    global reproduced
    if ok:
        reproduced += 1
        print(f"[{tag}] REPRODUCED: {detail}")
    else:
        print(f"[{tag}] not reproduced ({detail})")


def outside_unchanged(doc, new, pos):
    """True iff everything before the opening of the node at `pos` and after
    its closing is identical in `new`, and the node (type+attrs) is still at `pos`."""
    node = doc.node_at(pos)
    if new.content.size < pos or not doc.slice(0, pos).eq(new.slice(0, pos)):
        return False
    nn = new.resolve(pos).node_after if new.resolve(pos).depth == doc.resolve(pos).depth else None
    if nn is None or not nn.same_markup(node):
        return False
    post, npost = pos + node.node_size, pos + nn.node_size
    if doc.content.size - post != new.content.size - npost:
        return False
    return doc.slice(post, doc.content.size).eq(new.slice(npost, new.content.size))


# ---------------------------------------------------------------- F1
# replace_range_with(pos, pos, block) inside an isolating node: insert_point()
# climbs out of the isolating node and the block lands outside it.

# F1a table-like variant of the basic schema, cells hold paragraph+
nodes = dict(basic.spec["nodes"])
nodes["table"] = {"group": "block", "content": "table_row+", "isolating": True}
nodes["table_row"] = {"content": "table_cell+"}
nodes["table_cell"] = {"content": "paragraph+", "isolating": True}
T = Schema({"nodes": nodes, "marks": basic.spec["marks"]})
n = T.node
doc = n("doc", None, [
    n("paragraph", None, [T.text("x")]),
    n("table", None, [n("table_row", None, [
        n("table_cell", None, [n("paragraph", None, [T.text("ab")])]),
        n("table_cell", None, [n("paragraph", None, [T.text("cd")])]),
    ])]),
])
doc.check()
cell_pos = 5  # first table_cell opens at 5 ; its paragraph content starts at 7
assert doc.node_at(cell_pos).type.name == "table_cell"
try:
    new = Transform(doc).replace_range_with(7, 7, n("horizontal_rule")).doc
    report("F1a replace_range_with at start of first cell escapes table", not outside_unchanged(doc, new, cell_pos),
           f"{doc}  ->  {new}")
except Exception as e:  # noqa: BLE001
    report("F1a replace_range_with at start of first cell escapes table", False, repr(e))
try:
    # end of the last cell: pos 17 = end of paragraph "cd"
    last_cell = 5 + doc.node_at(5).node_size
    assert doc.node_at(last_cell).type.name == "table_cell"
    end_in_par = last_cell + 2 + 2
    new = Transform(doc).replace_range_with(end_in_par, end_in_par, n("horizontal_rule")).doc
    report("F1b replace_range_with at end of last cell escapes table", not outside_unchanged(doc, new, last_cell),
           f"{doc}  ->  {new}")
except Exception as e:  # noqa: BLE001
    report("F1b replace_range_with at end of last cell escapes table", False, repr(e))

# F1c isolating block container with strict content
nodes = dict(basic.spec["nodes"])
nodes["iso"] = {"group": "block", "content": "heading paragraph+", "isolating": True}
I = Schema({"nodes": nodes, "marks": basic.spec["marks"]})
n = I.node
doc = n("doc", None, [n("iso", None, [n("heading", {"level": 1}, [I.text("x")]), n("paragraph")])])
doc.check()
try:
    new = Transform(doc).replace_range_with(1, 1, n("paragraph")).doc  # pos 1: directly inside iso
    report("F1c replace_range_with directly inside isolating block escapes it", not outside_unchanged(doc, new, 0),
           f"{doc}  ->  {new}")
except Exception as e:  # noqa: BLE001
    report("F1c replace_range_with directly inside isolating block escapes it", False, repr(e))

# F1d isolating textblock (figure caption)
nodes = dict(basic.spec["nodes"])
nodes["figure"] = {"group": "block", "content": "caption paragraph*", "isolating": True}
nodes["caption"] = {"content": "inline*", "isolating": True}
F = Schema({"nodes": nodes, "marks": basic.spec["marks"]})
n = F.node
doc = n("doc", None, [n("figure", None, [n("caption", None, [F.text("ab")]), n("paragraph", None, [F.text("c")])])])
doc.check()
try:
    new = Transform(doc).replace_range_with(2, 2, n("horizontal_rule")).doc  # pos 2: start of caption text
    report("F1d replace_range_with at start of isolating caption escapes figure", not outside_unchanged(doc, new, 0),
           f"{doc}  ->  {new}")
except Exception as e:  # noqa: BLE001
    report("F1d replace_range_with at start of isolating caption escapes figure", False, repr(e))

# ---------------------------------------------------------------- F2
# Transform.replace on a collapsed range inside the isolating caption raises
# TransformError: the fitter builds a step whose open end joins blockquote with figure.
src = n("doc", None, [n("blockquote", None, [n("paragraph", None, [F.text("x")]), n("paragraph", None, [F.text("y")])])])
sl = src.slice(0, 5)  # <blockquote(paragraph("x"), paragraph)>(0,2)
try:
    new = Transform(doc).replace(2, 2, sl).doc
    report("F2 Transform.replace raises 'Cannot join'", False, f"no exception, result {new}")
except Exception as e:  # noqa: BLE001
    report("F2 Transform.replace raises 'Cannot join'", "Cannot join" in str(e),
           f"Transform({doc}).replace(2, 2, {sl}) raised {type(e).__name__}: {e}")

sys.exit(1 if reproduced else 0)
