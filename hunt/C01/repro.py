"""Reproduces the C01 findings. Run from the worktree:  /venv/bin/python /tmp/hunt_out/C01/repro.py

Exit status 1 if any finding reproduces, 0 otherwise.
"""
import os
import signal
import sys
import traceback

sys.path.insert(0, os.getcwd())
import prosemirror  # noqa: E402

assert prosemirror.__file__.startswith(os.getcwd()), prosemirror.__file__

from prosemirror.model import Fragment, Schema, Slice  # noqa: E402
from prosemirror.test_builder import out, test_schema  # noqa: E402
from prosemirror.transform import (  # noqa: E402
    AddMarkStep,
    RemoveMarkStep,
    ReplaceAroundStep,
    ReplaceStep,
    Step,
)


def _alarm(signum, frame):
    raise TimeoutError("step did not terminate in 3 s")


signal.signal(signal.SIGALRM, _alarm)

reproduced = []


def run(label, step, doc):
    """Apply step; classify per property C01. Returns True if the property is violated."""
    signal.alarm(3)
    try:
        res = step.apply(doc)
    except ValueError as e:  # allowed: ValueError family
        print(f"[ok ] {label}: raised {type(e).__name__}: {e}")
        return False
    except BaseException as e:  # noqa: BLE001 - internal error / timeout
        tb = traceback.extract_tb(e.__traceback__)[-1]
        print(f"[BUG] {label}: {type(e).__name__}: {e}  ({os.path.basename(tb.filename)}:{tb.lineno})")
        return True
    finally:
        signal.alarm(0)
    if res.failed is not None:
        print(f"[ok ] {label}: failed result: {res.failed}")
        return False
    try:
        res.doc.check()
    except ValueError as e:
        print(f"[BUG] {label}: returned schema-INVALID doc {res.doc}  ({e})")
        return True
    print(f"[ok ] {label}: valid doc {res.doc}")
    return False


def finding(name, violated):
    if violated:
        reproduced.append(name)


# ---------------------------------------------------------------------------
# F1: ReplaceAroundStep whose insert point falls inside a text node of a fully
#     valid slice -> gap content is spliced into the middle of the text without
#     a content check -> silently invalid document.
# ---------------------------------------------------------------------------
s1 = Schema({
    "nodes": {
        "doc": {"content": "title+"},
        "title": {"content": "image? text*"},  # an image is only allowed first
        "text": {},
        "image": {"inline": True},
    }
})
doc1 = s1.node("doc", None, [s1.node("title", None, [s1.node("image"), s1.text("x")])])
doc1.check()
slice1 = Slice(Fragment.from_(s1.node("title", None, [s1.text("ab")])), 0, 0)
slice1.content.child(0).check()  # slice payload is itself valid
step1 = ReplaceAroundStep(0, 4, 1, 2, slice1, 2)  # gap = the image, insert between "a" and "b"
finding("F1", run("F1 ReplaceAroundStep insert inside text of slice", step1, doc1))
finding("F1", run("F1 same step decoded from JSON", Step.from_json(s1, step1.to_json()), doc1))

# ---------------------------------------------------------------------------
# F2: mark steps with from > to (both positions inside the document) die with
#     IndexError instead of failing.
# ---------------------------------------------------------------------------
doc, p, bq = out["doc"], out["p"], out["blockquote"]
em = test_schema.mark("em")
d2 = doc(p())
finding("F2", run("F2 AddMarkStep(1, 0)", AddMarkStep(1, 0, em), d2))
finding("F2", run("F2 RemoveMarkStep(1, 0)", RemoveMarkStep(1, 0, em), d2))
d2b = doc(p("ab"), bq(p("cd")))
finding("F2", run("F2 AddMarkStep(7, 4) on doc(p(ab), bq(p(cd)))", AddMarkStep(7, 4, em), d2b))
finding(
    "F2",
    run(
        "F2 addMark from JSON {from:1,to:0}",
        Step.from_json(test_schema, {"stepType": "addMark", "from": 1, "to": 0, "mark": {"type": "em"}}),
        d2,
    ),
)

# ---------------------------------------------------------------------------
# F3 (secondary, payload is malformed rather than schema-valid): a slice whose
#     openStart/openEnd exceed the real depth of its content (or are negative)
#     -> IndexError instead of a failed result.
# ---------------------------------------------------------------------------
d3 = doc(p("ab"))
for js in (
    {"content": [{"type": "text", "text": "abc"}], "openStart": 1, "openEnd": 1},
    {"content": [{"type": "horizontal_rule"}], "openStart": 1, "openEnd": 1},
    {"content": [{"type": "text", "text": "abc"}], "openStart": -1, "openEnd": -1},
):
    st = Step.from_json(test_schema, {"stepType": "replace", "from": 1, "to": 1, "slice": js})
    finding("F3", run(f"F3 replace with slice {js}", st, d3))

# ---------------------------------------------------------------------------
# F4 (minor): RecursionError on very deep (but schema-valid) documents.
# ---------------------------------------------------------------------------
n = test_schema.node("paragraph", None, [test_schema.text("ab")])
for _ in range(990):
    n = test_schema.nodes["blockquote"].create(None, n)
d4 = test_schema.nodes["doc"].create(None, n)
finding(
    "F4",
    run("F4 ReplaceStep inserting text 990 blockquotes deep",
        ReplaceStep(992, 992, Slice(Fragment.from_(test_schema.text("x")), 0, 0)), d4),
)

print()
if reproduced:
    print("REPRODUCED:", ", ".join(sorted(set(reproduced))))
    sys.exit(1)
print("nothing reproduced")
sys.exit(0)
