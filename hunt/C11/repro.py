"""Reproduces the C11 findings.  Run from the worktree directory:

    cd /tmp/hunt_wt_C11 && /venv/bin/python /tmp/hunt_out/C11/repro.py

Exits 1 if any finding reproduces, 0 otherwise.
"""

import os
import signal
import sys

sys.path.insert(0, os.getcwd())
import prosemirror

assert os.path.realpath(prosemirror.__file__).startswith("/tmp/hunt_wt_C11"), prosemirror.__file__

from prosemirror.model import Fragment, Schema, Slice
from prosemirror.schema.basic import schema as basic
from prosemirror.test_builder import out, test_schema
from prosemirror.transform import Transform

doc, p, ul, ol, li, pre = (out[k] for k in "doc p ul ol li pre".split())
TN = dict(test_schema.spec["nodes"])
MARKS = basic.spec["marks"]


class Timeout(Exception):
    pass


def _alarm(sig, frm):
    raise Timeout()


signal.signal(signal.SIGALRM, _alarm)


def valid(d):
    try:
        d.check()
        return True
    except Exception:
        return False


def text(d):
    return d.text_between(0, d.content.size)


# ---------------------------------------------------------------- F1
def f1_content_match_at_bundled_schema():
    """bundled basic+list schema: replace() raises ValueError for a slice cut
    with include_parents=True from the 2nd child of a list item."""
    src = doc(ol(li(p("a"), pre("bcd"))))
    sl = src.slice(5, 6, True)  # <ordered_list(list_item(code_block))>(2,3)
    target = doc(ul(li(p("xy"))))
    try:
        Transform(target).replace(1, 1, sl)
    except ValueError as e:
        return f"replace raised ValueError: {e}"
    return None


# ---------------------------------------------------------------- F2
def f2_close_fragment_invalid_doc():
    """strict 'figure: body caption' variant: replace_range returns a document
    that is not schema-valid (empty body, needs paragraph+)."""
    s = Schema({
        "nodes": {
            **dict(basic.spec["nodes"]),
            "figure": {"content": "body caption", "group": "block"},
            "body": {"content": "paragraph+"},
            "caption": {"content": "text*"},
        },
        "marks": MARKS,
    })
    n, t = s.node, s.text
    src = n("doc", None, [n("figure", None, [n("body", None, [n("paragraph", None, [t("x")])]), n("caption")])])
    src.check()
    target = n("doc", None, [n("paragraph", None, [t("abc")])])
    msgs = []
    sl = src.slice(1, 2, True)  # <figure(body)>(1,2)
    tr = Transform(target).replace_range(0, 0, sl)
    if not valid(tr.doc):
        msgs.append(f"replace_range(0,0,{sl}) returned invalid doc {tr.doc}")
    sl2 = src.slice(1, 3, True)  # <figure(body(paragraph))>(1,3)
    try:
        Transform(target).replace_range(0, 0, sl2)
    except AssertionError:
        msgs.append(f"replace_range(0,0,{sl2}) raised AssertionError (place_nodes: cur.last_child is None)")
    return "; ".join(msgs) or None


# ---------------------------------------------------------------- F3
def f3_stale_open_start():
    """strict list variant: Fitter keeps open_start after placing the open
    first node -> AttributeError in find_fittable."""
    s = Schema({
        "nodes": {
            **TN,
            "doc": {"content": "heading (paragraph | bullet_list | ordered_list)+"},
            "list_item": {**TN["list_item"], "content": "paragraph (bullet_list | ordered_list)?"},
        },
        "marks": MARKS,
    })
    n, t = s.node, s.text
    P = lambda *c: n("paragraph", None, list(c))
    LI = lambda *c: n("list_item", None, list(c))
    UL = lambda *c: n("bullet_list", None, list(c))
    OL = lambda *c: n("ordered_list", None, list(c))
    H = lambda *c: n("heading", {"level": 1}, list(c))
    target = n("doc", None, [H(), OL(LI(P()), LI(P()))])
    target.check()
    src = n("doc", None, [H(), UL(LI(P()), LI(P(t("ab")))), UL(LI(P()))])
    src.check()
    sl = src.slice(4, 15)  # <bullet_list(li(p), li(p("ab"))), bullet_list>(2,1)
    try:
        Transform(target).replace(5, 5, sl)
    except AttributeError as e:
        return f"replace raised AttributeError: {e}"
    return None


# ---------------------------------------------------------------- F4
def f4_silent_noop():
    """strict 'heading body' / 'title? block*' variants: replace over a
    non-empty range silently does nothing (range text survives)."""
    msgs = []
    hb = Schema({
        "nodes": {**TN, "doc": {"content": "heading body"}, "body": {"content": "block+"}},
        "marks": MARKS,
    })
    n, t = hb.node, hb.text
    d = n("doc", None, [n("heading", {"level": 1}, [t("abc")]), n("body", None, [n("paragraph", None, [t("xyz")])])])
    tr = Transform(d).replace_with(1, 3, n("paragraph", None, [t("Q")]))
    if "ab" in text(tr.doc) and not tr.steps:
        msgs.append(f"hb: replace_with(1,3,paragraph('Q')) is a silent no-op: {tr.doc}")
    ti = Schema({
        "nodes": {**TN, "title": {"content": "text*"}, "doc": {"content": "title? block*"}},
        "marks": MARKS,
    })
    n, t = ti.node, ti.text
    d = n("doc", None, [n("title", None, [t("xyz")])])
    tr = Transform(d).replace_range_with(2, 3, n("paragraph"))
    if "y" in text(tr.doc) and not tr.steps:
        msgs.append(f"title: replace_range_with(2,3,paragraph) is a silent no-op: {tr.doc}")
    return "; ".join(msgs) or None


# ---------------------------------------------------------------- F5
def f5_surrogate_split():
    """port specific: an in-range position between the two UTF-16 code units
    of an astral character makes every replace-family op raise
    UnicodeDecodeError."""
    d = doc(p("\U0001f600x"))  # size 5, text occupies 1..4, pos 2 is mid-pair
    d.resolve(2)  # the position itself resolves fine
    msgs = []
    for name, call in (
        ("delete(2,3)", lambda tr: tr.delete(2, 3)),
        ("delete_range(2,4)", lambda tr: tr.delete_range(2, 4)),
        ("insert(2, text)", lambda tr: tr.insert(2, test_schema.text("q"))),
        ("replace_range_with(2,2,hr)", lambda tr: tr.replace_range_with(2, 2, out["hr"]())),
    ):
        try:
            call(Transform(d))
        except UnicodeDecodeError as e:
            msgs.append(f"{name}: UnicodeDecodeError")
    return "; ".join(msgs) or None


# ---------------------------------------------------------------- F6
def f6_create_and_fill_recursion():
    """random well-founded schema: self-reference listed first in a starred
    choice -> create_and_fill / fill_before recurse forever (RecursionError)
    from delete()."""
    s = Schema({
        "nodes": {
            "doc": {"content": "sec+"},
            "sec": {"content": "(sec | paragraph)* hr"},
            "paragraph": {"content": "text*"},
            "hr": {},
            "text": {},
        },
    })
    C = lambda name, *c: s.nodes[name].create(None, list(c))
    d = C("doc", C("sec", C("paragraph", s.text("a")), C("hr")))
    d.check()
    try:
        Transform(d).delete(0, d.content.size)
    except RecursionError:
        return "delete(0, size) raised RecursionError"
    return None


FINDINGS = [
    f1_content_match_at_bundled_schema,
    f2_close_fragment_invalid_doc,
    f3_stale_open_start,
    f4_silent_noop,
    f5_surrogate_split,
    f6_create_and_fill_recursion,
]

if __name__ == "__main__":
    sys.setrecursionlimit(2000)
    bad = 0
    for f in FINDINGS:
        signal.alarm(10)
        try:
            r = f()
        except Timeout:
            r = "TIMEOUT (non-termination)"
        except Exception as e:  # unexpected kind of failure still counts
            r = f"unexpected {type(e).__name__}: {e}"
        finally:
            signal.alarm(0)
        if r:
            bad += 1
            print(f"[REPRODUCED] {f.__name__}: {r}")
        else:
            print(f"[not reproduced] {f.__name__}")
    sys.exit(1 if bad else 0)
