"""C10 repro.  Run from the checkout directory:

    cd /tmp/hunt_wt_C10 && /venv/bin/python /tmp/hunt_out/C10/repro.py
"""

import os
import sys

sys.path.insert(0, os.getcwd())  # import the checkout we are run from

from prosemirror.test_builder import builders, out, test_schema  # noqa: E402
from prosemirror.transform import Mapping, StepMap, Transform  # noqa: E402

reproduced = 0


def report(tag, ok, detail):
    global reproduced
    if ok:
        reproduced += 1
        print(f"[{tag}] REPRODUCED: {detail}")
    else:
        print(f"[{tag}] not reproduced")


# ---------------------------------------------------------------------------
# F1  Mapping.slice() / Mapping(maps) share the maps (and mirror) list, so
#     appending to the derived mapping changes a mapping that is NOT being
#     appended to - here the transform's own accumulator.
def f1():
    doc, p = out["doc"], out["p"]
    tr = Transform(doc(p("hello")))
    tr.insert(1, test_schema.text("ab"))  # one step, one map [1,0,2]
    m = tr.mapping
    maps_before = list(m.maps)
    mapped_before = m.map(3)  # 5

    tail = m.slice(0)  # a *different* Mapping object
    tail.append_map(StepMap([0, 0, 10]))  # accumulate into the slice only

    grew = len(m.maps) != len(maps_before)  # transform's list grew: 2 maps, 1 step
    tr.insert(1, test_schema.text("c"))  # next genuine step: to = len(maps) = 3
    mapped_after = tr.mapping.map(3)  # should be 6 (5 + 1), is 16
    foreign = len(tr.mapping.maps) != len(tr.steps)

    # same aliasing through the constructor: the caller's list is appended to
    mine = [StepMap([0, 0, 1])]
    Mapping(mine).append_map(StepMap([0, 0, 2]))
    ctor = len(mine) == 2

    # and through the mirror list
    base = Mapping([StepMap([0, 0, 1]), StepMap([0, 1, 0])], [0, 1])
    mirror_before = list(base.mirror)
    s2 = base.slice(0)
    s2.append_map(StepMap([0, 0, 1]), 1)
    mirror = base.mirror != mirror_before

    ok = grew and foreign and mapped_after != mapped_before + 1
    report(
        "F1 Mapping.slice/ctor alias maps+mirror lists",
        ok,
        f"after slice(0).append_map(): tr.mapping.maps {len(maps_before)}->"
        f"{len(maps_before) + 1} with {1} step; after next step tr has "
        f"{len(tr.steps)} steps / {len(tr.mapping.maps)} maps and "
        f"tr.mapping.map(3)={mapped_after} (expected {mapped_before + 1}); "
        f"ctor list mutated={ctor}; parent mirror mutated={mirror}",
    )


# ---------------------------------------------------------------------------
# F2  test_builder.block() updates the builder's attrs dict in place
#     (`my_attrs = attrs; my_attrs.update(args[0])`): attrs given to one call
#     leak into every later call, and the `names` dict given to builders()
#     is mutated.
def f2():
    names = {"h1": {"nodeType": "heading", "level": 1}}
    names_before = {k: dict(v) for k, v in names.items()}
    b = builders(test_schema, names)
    h1 = b["h1"]
    first = h1("x")
    h1({"level": 5}, "y")
    later = h1("z")  # should be level 1 again
    ok = (
        first.attrs["level"] == 1
        and later.attrs["level"] == 5
        and names != names_before
    )
    # the bundled builders behave the same way
    doc, p = out["doc"], out["p"]
    saved = doc(p("a")).attrs["meta"]
    probe = None
    try:
        doc({"meta": 7}, p("a"))
        probe = doc(p("a")).attrs["meta"]
    finally:
        doc({"meta": saved}, p("a"))  # undo the leak for anyone importing us
    report(
        "F2 test_builder block attrs leak between calls",
        ok and probe == 7,
        f"h1('x').level={first.attrs['level']}, then h1({{'level':5}},'y'), then "
        f"h1('z').level={later.attrs['level']} (expected 1); names arg mutated to "
        f"{names}; bundled doc(p('a')).attrs['meta'] after doc({{'meta':7}},...)={probe}",
    )


for f in (f1, f2):
    try:
        f()
    except Exception as e:  # noqa: BLE001
        print(f"[{f.__name__}] not reproduced (raised {type(e).__name__}: {e})")

sys.exit(1 if reproduced else 0)
