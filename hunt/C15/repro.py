"""C15 repro.  Run from the checkout directory:
    cd /tmp/hunt_wt_C15 && /venv/bin/python /tmp/hunt_out/C15/repro.py
Prints one line per finding; exits 1 if anything reproduced.
"""
import os
import signal
import sys

sys.path.insert(0, os.getcwd())

from prosemirror.model import Fragment, Schema  # noqa: E402
from prosemirror.schema.basic import schema as basic  # noqa: E402

reproduced = []


def line(tag, ok, msg):
    print(f"[{tag}] {'REPRODUCED: ' + msg if ok else 'not reproduced'}")
    if ok:
        reproduced.append(tag)


def basic_nodes(**override):
    nodes = {n: dict(t.spec) for n, t in basic.nodes.items()}
    for k, v in override.items():
        nodes[k] = {**nodes.get(k, {}), **v}
    return nodes


def names(frag):
    return [frag.child(i).type.name for i in range(frag.child_count)]


class Hang(Exception):
    pass


def _alarm(*_):
    raise Hang


signal.signal(signal.SIGALRM, _alarm)


# ---------------------------------------------------------------------------
# F1  start state of a content automaton has its edges in the opposite order
#     from every other state (null_from sorts ascending, dfa sorts descending;
#     upstream sorts descending in both places).  Consequence: at a node's START,
#     default_type / fill_before / create_and_fill prefer an optional leading
#     child instead of skipping it; the same expression position reached as a
#     non-start state behaves like upstream.  The start state is also duplicated.
def f1():
    s = Schema({"nodes": basic_nodes(doc={"content": "(heading? paragraph)+"})})
    start = s.nodes["doc"].content_match
    para = s.nodes["paragraph"]
    loop = start.match_type(para)  # same NFA set {0,1} as start, reached again
    start_edges = [e.type.name for e in start.next]
    loop_edges = [e.type.name for e in loop.next]
    inconsistent = start_edges != loop_edges and sorted(start_edges) == sorted(loop_edges)

    # upstream test_content has ("heading paragraph? horizontal_rule", <heading>, <>, <horizontal_rule>)
    # i.e. the optional paragraph is skipped.  Same thing at the start of an expression:
    s2 = Schema({"nodes": basic_nodes(doc={"content": "paragraph? horizontal_rule"})})
    m2 = s2.nodes["doc"].content_match
    fill_start = names(m2.fill_before(Fragment.empty, True))
    s3 = Schema({"nodes": basic_nodes(doc={"content": "heading paragraph? horizontal_rule"})})
    m3 = s3.nodes["doc"].content_match.match_type(s3.nodes["heading"])
    fill_mid = names(m3.fill_before(Fragment.empty, True))
    dt_start = m2.default_type.name
    dt_mid = m3.default_type.name
    caf = str(s2.nodes["doc"].create_and_fill())
    ok = (
        inconsistent
        and fill_start == ["paragraph", "horizontal_rule"]
        and fill_mid == ["horizontal_rule"]
        and dt_start == "paragraph"
        and dt_mid == "horizontal_rule"
    )
    line(
        "F1 start-state edge order reversed (null_from sorts ascending)",
        ok,
        f"'(heading? paragraph)+' start edges {start_edges} vs same state after a paragraph {loop_edges}; "
        f"'paragraph? horizontal_rule' at start: fill_before(empty, to_end)={fill_start}, default_type={dt_start}, "
        f"create_and_fill={caf}; the same position after a heading in 'heading paragraph? horizontal_rule': "
        f"fill={fill_mid}, default_type={dt_mid} (upstream gives the short answer in both)",
    )


# ---------------------------------------------------------------------------
# F2  fill_before / create_and_fill crash (AttributeError) instead of trying another
#     filler or returning None when the first generatable type they pick cannot itself
#     be filled (create_and_fill() -> None).  check_for_dead_ends does not catch
#     "caption* image" (image has a required attr): every state has a generatable edge,
#     yet no generatable completion exists.
def f2():
    nodes = basic_nodes(
        doc={"content": "(figure | paragraph)+"},
        figure={"content": "caption* image", "group": "block"},
        caption={"content": "text*"},
    )
    nodes["image"] = {**nodes["image"], "inline": False, "group": "block"}
    # keep figure before paragraph in group/choice order
    order = ["doc", "figure", "caption", "paragraph", "image", "text"]
    s = Schema({"nodes": {n: nodes[n] for n in order}, "marks": {}})
    doc = s.nodes["doc"]
    fig_alone = s.nodes["figure"].create_and_fill()  # None: correct
    valid_exists = doc.valid_content(Fragment.from_(s.nodes["paragraph"].create()))
    err = None
    try:
        res = doc.content_match.fill_before(Fragment.empty, True)
    except Exception as e:  # noqa: BLE001
        err = e
    err2 = None
    try:
        doc.create_and_fill()
    except Exception as e:  # noqa: BLE001
        err2 = e
    ok = fig_alone is None and valid_exists and isinstance(err, AttributeError) and isinstance(err2, AttributeError)
    line(
        "F2 fill_before crashes when chosen filler type cannot be generated",
        ok,
        f"doc '(figure | paragraph)+', figure 'caption* image' (image.src required): figure.create_and_fill() is None, "
        f"[paragraph] is a valid filling, but fill_before(empty, True) raised {err!r} and doc.create_and_fill() raised {err2!r}",
    )


# ---------------------------------------------------------------------------
# F3  'x{0,}' is compiled as a loop on the *incoming* NFA node, so it is not
#     equivalent to 'x*' whenever that node has other edges (choice, loop body).
def f3():
    def mk(expr):
        return Schema({"nodes": {"doc": {"content": expr}, "a": {}, "b": {}, "text": {}}})

    out = {}
    for expr in ("a{0,} | b", "a* | b", "(a{0,} b)*", "(a* b)*"):
        s = mk(expr)
        a, b = s.nodes["a"].create(), s.nodes["b"].create()
        out[expr] = (
            s.nodes["doc"].valid_content(Fragment.from_([a, b])),
            s.nodes["doc"].valid_content(Fragment.from_([a])),
        )
    ok = out["a{0,} | b"][0] is True and out["a* | b"][0] is False and out["(a{0,} b)*"][1] is True and out["(a* b)*"][1] is False
    s = mk("(a{0,} b)*")
    # consequence for the property: fill to a valid end from 'a' is claimed to need nothing
    m = s.nodes["doc"].content_match.match_type(s.nodes["a"])
    fill = m.fill_before(Fragment.empty, True)
    line(
        "F3 'x{0,}' loops on the shared incoming state",
        ok,
        f"'a{{0,}} | b' accepts [a, b] ({out['a{0,} | b'][0]}; 'a* | b' -> {out['a* | b'][0]}); "
        f"'(a{{0,}} b)*' accepts [a] ({out['(a{0,} b)*'][1]}; '(a* b)*' -> {out['(a* b)*'][1]}), "
        f"so fill_before(empty, to_end) after [a] returns {names(fill) if fill is not None else None} instead of [b]",
    )


# ---------------------------------------------------------------------------
# F4  RecursionError while compiling an expression whose repeated body is a
#     nullable bounded range: null_from.scan follows single-null-edge nodes
#     without a visited check.
def f4():
    bad = []
    for expr in ("a{0,1}*", "(a{0,1})+", "(a{0,1} | b)*"):
        signal.setitimer(signal.ITIMER_REAL, 5)
        try:
            Schema({"nodes": {"doc": {"content": expr}, "a": {}, "b": {}, "text": {}}})
        except RecursionError:
            bad.append(expr)
        except Hang:
            bad.append(expr + " (hang)")
        except Exception:  # noqa: BLE001
            pass
        finally:
            signal.setitimer(signal.ITIMER_REAL, 0)
    okexpr = Schema({"nodes": {"doc": {"content": "(a?)*"}, "a": {}, "text": {}}}) is not None
    line(
        "F4 epsilon cycle in null_from -> RecursionError at schema construction",
        len(bad) == 3 and okexpr,
        f"Schema() raised RecursionError for content expressions {bad} (equivalent '(a?)*' compiles fine)",
    )


for f in (f1, f2, f3, f4):
    try:
        f()
    except Exception as e:  # noqa: BLE001
        print(f"[{f.__name__}] not reproduced (script error {e!r})")

sys.exit(1 if reproduced else 0)
