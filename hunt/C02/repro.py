"""C02 repro - run from the checkout directory:
    cd /tmp/hunt_wt_C02 && /venv/bin/python /tmp/hunt_out/C02/repro.py
"""
import os
import sys

sys.path.insert(0, os.getcwd())

from prosemirror.model import Fragment, Schema, Slice  # noqa: E402
from prosemirror.model.replace import ReplaceError  # noqa: E402

reproduced = 0


def types_in(node, acc):
    acc.append(node.type)
    for m in node.marks:
        acc.append(m.type)
    for c in node.content.content:
        types_in(c, acc)
    return acc


# ---------------------------------------------------------------------------
# F1: Node.replace accepts a slice whose nodes belong to a different Schema
#     (node types are matched by *name*, upstream matches by identity and
#     raises ReplaceError). The returned tree mixes two schemas; marks on the
#     other hand are matched by identity, so the behaviour is inconsistent.
# ---------------------------------------------------------------------------
def f1():
    spec = {
        "nodes": {
            "doc": {"content": "block+"},
            "paragraph": {"content": "inline*", "group": "block", "marks": "em"},
            "text": {"group": "inline"},
        },
        "marks": {"em": {}},
    }
    a, b = Schema(spec), Schema(spec)
    doc = a.node("doc", None, [a.node("paragraph", None, [a.text("hello")])])
    foreign_plain = Slice(Fragment([b.text("X")]), 0, 0)
    foreign_block = Slice(Fragment([b.node("paragraph", None, [b.text("Y")])]), 0, 0)
    foreign_marked = Slice(Fragment([b.text("Z", [b.mark("em")])]), 0, 0)
    out = []
    for name, pos, sl in (("inline", 3, foreign_plain), ("block", 7, foreign_block), ("marked", 3, foreign_marked)):
        try:
            res = doc.replace(pos, pos, sl)
            foreign = [t for t in types_in(res, []) if t.schema is not a]
            out.append(f"{name}: accepted -> {res} ({len(foreign)} foreign type objects in result)")
        except ReplaceError as e:
            out.append(f"{name}: ReplaceError({e})")
    bad = [o for o in out if "accepted" in o]
    return bool(bad), "; ".join(out)


# ---------------------------------------------------------------------------
# F2: content expression `x{0,}` next to an alternative compiles to a loop on
#     the shared start state, so valid_content / close() accept sequences the
#     expression does not allow, and replace returns a schema-invalid tree.
#     (shared with upstream prosemirror-model's nfa() for ranges with min 0
#     and no max.)
# ---------------------------------------------------------------------------
def f2():
    schema = Schema({
        "nodes": {
            "doc": {"content": "(heading | paragraph{0,}) footer"},
            "heading": {"content": "text*"},
            "paragraph": {"content": "text*"},
            "footer": {"content": "text*"},
            "text": {},
        },
    })
    n = schema.node
    doc = n("doc", None, [n("heading"), n("footer")])
    # insert a paragraph *before* the heading: paragraph heading footer
    # is not in the language (heading | paragraph*) footer
    sl = Slice(Fragment([n("paragraph")]), 0, 0)
    try:
        res = doc.replace(0, 0, sl)
    except ReplaceError as e:
        return False, f"ReplaceError({e})"
    # control: same language written with `*` rejects it
    schema2 = Schema({
        "nodes": {
            "doc": {"content": "(heading | paragraph*) footer"},
            "heading": {"content": "text*"},
            "paragraph": {"content": "text*"},
            "footer": {"content": "text*"},
            "text": {},
        },
    })
    n2 = schema2.node
    doc2 = n2("doc", None, [n2("heading"), n2("footer")])
    try:
        doc2.replace(0, 0, Slice(Fragment([n2("paragraph")]), 0, 0))
        control = "control with '*' ALSO accepted"
    except ReplaceError:
        control = "control with '*' raises ReplaceError as expected"
    return True, f"replace returned {res} for content '(heading | paragraph{{0,}}) footer'; {control}"


for tag, fn in (
    ("F1 replace accepts nodes of a different Schema instance (name-based type matching)", f1),
    ("F2 'x{0,}' in a choice loops on the shared state; replace returns schema-invalid tree", f2),
):
    try:
        hit, msg = fn()
    except Exception as e:  # noqa: BLE001
        hit, msg = False, f"unexpected {type(e).__name__}: {e}"
    if hit:
        reproduced += 1
        print(f"[{tag}] REPRODUCED: {msg}")
    else:
        print(f"[{tag}] not reproduced ({msg})")

sys.exit(1 if reproduced else 0)
