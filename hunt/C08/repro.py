"""C08 repro - run from the checkout directory:
    cd /tmp/hunt_wt_C08 && /venv/bin/python /tmp/hunt_out/C08/repro.py
"""
import os
import sys

sys.path.insert(0, os.getcwd())

from prosemirror.test_builder import out, test_schema as schema  # noqa: E402
from prosemirror.transform import (  # noqa: E402
    AttrStep,
    Mapping,
    ReplaceStep,
    StepMap,
    Transform,
)
from prosemirror.model import Fragment, Slice  # noqa: E402

doc, p, h1 = out["doc"], out["p"], out["h1"]
found = 0


def report(tag, ok, msg):
    global found
    if ok:
        found += 1
        print(f"[{tag}] REPRODUCED: {msg}")
    else:
        print(f"[{tag}] not reproduced")


# ---------------------------------------------------------------------------
# F1: Mapping.slice() shares the maps/mirror lists with its parent, and
# append_map() on the slice pushes into them: the parent is mutated and an inner
# slice silently picks up the parent's trailing maps.
def f1():
    d = doc(p("abcdef"))
    tr = Transform(d)
    tr.step(ReplaceStep(1, 1, Slice(Fragment.from_(schema.text("XX")), 0, 0)))
    tr.step(ReplaceStep(5, 6, Slice.empty))
    parent = tr.mapping
    before = [str(m) for m in parent.maps]
    inv_before = [str(m) for m in parent.invert().maps]

    view = parent.slice(1)  # "everything after step 0", the usual rebasing idiom
    view.append_map(StepMap([0, 0, 3]))  # extend the *view* only

    after = [str(m) for m in parent.maps]
    inv_after = [str(m) for m in parent.invert().maps]
    sym = []
    if after != before:
        sym.append(f"parent.maps {before} -> {after} (len(tr.steps)={len(tr.steps)})")
    if inv_after != inv_before:
        sym.append(f"parent.invert() now has {len(inv_after)} maps")
    if parent.slice(0).map(0, 1) != parent.map(0, 1):
        sym.append(
            f"parent.slice(0).map(0)={parent.slice(0).map(0, 1)} != parent.map(0)={parent.map(0, 1)}"
        )

    # inner slice + append: expected composition [a, c], observed [a, b, c]
    a, b, c = StepMap([0, 0, 1]), StepMap([0, 0, 10]), StepMap([0, 0, 100])
    m = Mapping([a, b])
    s = m.slice(0, 1)
    s.append_map(c)
    got = s.map(0, 1)
    if got != 101:
        sym.append(f"Mapping([a,b]).slice(0,1)+append(c) maps 0 -> {got}, composition a;c gives 101")

    # mirror list is shared as well
    m = Mapping([StepMap([2, 2, 0]), StepMap([2, 0, 2])], [0, 1])
    s = m.slice(0)
    s.append_map(StepMap([0, 1, 0]), 0)
    if m.mirror != [0, 1]:
        sym.append(f"parent.mirror [0, 1] -> {m.mirror}")

    # python-only inconsistency: an empty parent is NOT aliased (`maps or []`)
    e = Mapping()
    es = e.slice(0)
    es.append_map(StepMap([0, 0, 1]))
    if len(e.maps) == 0 and after != before:
        sym.append("empty parent is not aliased but a non-empty one is")
    report("F1 Mapping.slice aliases parent lists; append on slice corrupts parent", bool(sym), "; ".join(sym))


# ---------------------------------------------------------------------------
# F2: mapping a position that sits exactly at a pure insertion ([pos, 0, n])
# reports DEL_AFTER (deleted_after == True) although nothing was deleted.
# Visible consequence: AttrStep / AddNodeMarkStep / RemoveNodeMarkStep are
# dropped when rebased over an insertion directly in front of their node.
def f2():
    sym = []
    r = StepMap([2, 0, 4]).map_result(2, 1)
    r2 = StepMap([2, 0, 4]).map_result(2, -1)
    if r.deleted_after or r2.deleted_after:
        sym.append(
            f"StepMap([2,0,4]).map_result(2,+1): pos={r.pos} deleted_after={r.deleted_after}; "
            f"(2,-1): pos={r2.pos} deleted_after={r2.deleted_after} (expected False, nothing deleted)"
        )
    mr = Mapping([StepMap([2, 0, 4])]).map_result(2, 1)
    if mr.deleted_after:
        sym.append("same through Mapping.map_result")
    # consequence with real steps
    d = doc(h1("title"), p("body"))
    ins = ReplaceStep(0, 0, Slice(Fragment.from_(p("new")), 0, 0))  # remote user inserts a paragraph on top
    attr = AttrStep(0, "level", 2)  # local user changes the heading level
    mapped = attr.map(ins.get_map())
    d2 = ins.apply(d).doc
    if mapped is None:
        ok_would_apply = not AttrStep(5, "level", 2).apply(d2).failed
        sym.append(
            f"AttrStep(0,'level',2).map(insert-at-0 map {ins.get_map()}) -> None "
            f"(heading still exists at 5, AttrStep(5) applies: {ok_would_apply})"
        )
    report("F2 pure insertion reported as deleted_after", bool(sym), "; ".join(sym))


f1()
f2()
sys.exit(1 if found else 0)
