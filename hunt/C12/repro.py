"""Reproduces the C12 findings.  Run from the worktree directory:
    cd /tmp/hunt_wt_C12 && /venv/bin/python /tmp/hunt_out/C12/repro.py
Exits 1 if any finding reproduces, 0 otherwise.
"""
import os
import signal
import sys

sys.path.insert(0, os.getcwd())
import prosemirror  # noqa: E402

assert prosemirror.__file__.startswith(os.getcwd()), prosemirror.__file__

from prosemirror.model import Fragment, Schema, Slice  # noqa: E402
from prosemirror.test_builder import out, test_schema  # noqa: E402
from prosemirror.transform import (  # noqa: E402
    Transform,
    can_join,
    can_split,
    drop_point,
    join_point,
    lift_target,
)
from prosemirror.transform.structure import NodeTypeWithAttrs  # noqa: E402


def _alarm(*a):
    raise TimeoutError("hang")


signal.signal(signal.SIGALRM, _alarm)

doc, p, ul, li, bq, hr, pre = (out[k] for k in ("doc", "p", "ul", "li", "blockquote", "hr", "pre"))
reproduced = []


def finding(name):
    def deco(f):
        signal.alarm(5)
        try:
            msg = f()
        except Exception as e:  # unexpected harness problem
            msg = None
            print(f"[{name}] harness error: {type(e).__name__}: {e}")
        finally:
            signal.alarm(0)
        if msg:
            reproduced.append(name)
            print(f"[{name}] REPRODUCED: {msg}")
        else:
            print(f"[{name}] not reproduced")
        return f

    return deco


# ---------------------------------------------------------------------------
# F1  drop_point never looks at depth 0 (loop `range(pos_.depth, 0, -1)`)
# ---------------------------------------------------------------------------
@finding("F1 drop_point ignores the top-level node")
def f1():
    d = doc(p("ab"), p("cd"))
    s_hr = Slice(Fragment.from_(hr()), 0, 0)
    s_li = Slice(Fragment.from_(li(p("x"))), 0, 0)  # needs the wrapping pass
    got = [
        drop_point(d, 0, s_hr),  # between blocks at top level: should be 0
        drop_point(d, 4, s_hr),  # likewise: 4
        drop_point(d, 1, s_hr),  # start of 1st paragraph: should be 0 (before it)
        drop_point(d, 3, s_hr),  # end of 1st paragraph: should be 4 (after it)
        drop_point(d, 1, s_li),  # pass 2 (wrap in a list) : 0
    ]
    want = [0, 4, 0, 4, 0]
    # sanity: inserting at the wanted points does work
    for w in set(want):
        Transform(d).replace(w, w, s_hr).doc.check()
    if got != want:
        return f"drop_point results {got}, expected {want}"


# ---------------------------------------------------------------------------
# F2  can_split crashes on a None entry (index >= 1) in types_after
# ---------------------------------------------------------------------------
@finding("F2 can_split crashes on None in types_after")
def f2():
    d = doc(bq(p("ab")))
    ta = [NodeTypeWithAttrs(test_schema.nodes["blockquote"]), None]
    # Transform.split accepts exactly this list:
    Transform(d).split(3, 2, ta).doc.check()
    try:
        can_split(d, 3, 2, ta)
    except AttributeError as e:
        return f"can_split(doc(blockquote(p('ab'))), 3, 2, [blockquote, None]) raised AttributeError: {e}"


# ---------------------------------------------------------------------------
# F3  lift_target approves a lift whose step then fails
# ---------------------------------------------------------------------------
@finding("F3 lift_target approves an impossible lift (list schema)")
def f3():
    d = doc(ul(li(p("a"), ul(li(p("b")), li(p("c"))))))
    # range around the first inner list item  li(p("b"))
    rng = d.resolve(7).block_range()
    rng = d.resolve(7).block_range(d.resolve(7), lambda n: n.type.name == "bullet_list")
    assert rng is not None and rng.depth == 3, (rng and rng.depth)
    t = lift_target(rng)
    if t is None:
        return None
    try:
        tr = Transform(d).lift(rng, t)
        tr.doc.check()
    except Exception as e:
        return f"lift_target returned {t}, but lift raised {type(e).__name__}: {e}"


@finding("F3b lift_target approves an impossible lift (strict schema)")
def f3b():
    s = Schema({
        "nodes": {
            "doc": {"content": "head? block* sect* closing?"},
            "para": {"content": "text*", "group": "block"},
            "head": {"content": "text*", "marks": ""},
            "sect": {"content": "head block* sect*"},
            "closing": {"content": "text*"},
            "text": {"group": "inline"},
        },
    })
    n = lambda name, *c: s.nodes[name].create(None, list(c))  # noqa: E731
    d = n("doc", n("sect", n("head", s.text("a")), n("para", s.text("b"))), n("sect", n("head")))
    rng = d.resolve(5).block_range()  # the para inside the first sect
    assert rng is not None and rng.depth == 1
    t = lift_target(rng)
    if t is None:
        return None
    try:
        Transform(d).lift(rng, t).doc.check()
    except Exception as e:
        return f"lift_target returned {t}, but lift raised {type(e).__name__}: {e}"


# ---------------------------------------------------------------------------
# F4  positions inside a surrogate pair crash the helpers
# ---------------------------------------------------------------------------
@finding("F4 helpers crash on a position inside an astral character")
def f4():
    d = doc(p("a\U0001F600b"))  # content size 6; pos 3 is between the two UTF-16 units
    errs = []
    for name, f in [
        ("can_join", lambda: can_join(d, 3)),
        ("join_point", lambda: join_point(d, 3)),
        ("split after can_split==True", lambda: can_split(d, 3) and Transform(d).split(3)),
    ]:
        try:
            f()
        except UnicodeDecodeError as e:
            errs.append(f"{name}: UnicodeDecodeError")
    if errs:
        return "; ".join(errs)


# ---------------------------------------------------------------------------
# F5  can_split approves types_after that cannot be joined (upstream does too)
# ---------------------------------------------------------------------------
@finding("F5 can_split approves a split that fails (types_after kind mismatch; same upstream)")
def f5():
    d = doc(bq(p("a")))
    ta = [NodeTypeWithAttrs(test_schema.nodes["code_block"])]
    # pos 4: inside the blockquote, after the paragraph
    if can_split(d, 4, 1, ta):
        try:
            Transform(d).split(4, 1, ta).doc.check()
        except Exception as e:
            return f"can_split -> True, split raised {type(e).__name__}: {e}"


# ---------------------------------------------------------------------------
# F6  drop_point approves open slices whose insertion crashes in the Fitter
#     (root cause in transform/replace.py, believed identical upstream)
# ---------------------------------------------------------------------------
@finding("F6 replace at drop_point crashes for open slices in strict schemas (Fitter)")
def f6():
    s = Schema({
        "nodes": {
            "doc": {"content": "head? block* sect* closing?"},
            "para": {"content": "text*", "group": "block"},
            "head": {"content": "text*", "marks": ""},
            "quote": {"content": "block+", "group": "block"},
            "sect": {"content": "head block* sect*"},
            "closing": {"content": "text*"},
            "text": {"group": "inline"},
            "fixed": {"content": "head para closing", "group": "block"},
        },
    })
    n = lambda name, *c: s.nodes[name].create(None, list(c))  # noqa: E731
    d = n("doc", n("quote", n("quote", n("para"))), n("sect", n("head")))
    # the slice a user gets from  doc(fixed(head, para, closing), closing).slice(6, 9)
    src = n("doc", n("fixed", n("head"), n("para"), n("closing")), n("closing"))
    sl = src.slice(6, 9)
    assert str(sl) == "<fixed(closing), closing>(2,1)", str(sl)
    dp = drop_point(d, 1, sl)
    if dp is None:
        return None
    try:
        Transform(d).replace(dp, dp, sl).doc.check()
    except Exception as e:
        return f"slice {sl}: drop_point -> {dp}, replace raised {type(e).__name__}: {e}"


print()
print("reproduced:", reproduced)
sys.exit(1 if reproduced else 0)
