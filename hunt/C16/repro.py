"""Repro for C16 findings. Run from the worktree dir: /venv/bin/python /tmp/hunt_out/C16/repro.py
Exits 1 if any finding reproduces, 0 otherwise."""
import os
import sys

sys.path.insert(0, os.getcwd())
import prosemirror  # noqa: E402

assert prosemirror.__file__.startswith("/tmp/hunt_wt_C16"), prosemirror.__file__
from prosemirror.model import Schema, Slice  # noqa: E402
from prosemirror.schema.basic import schema as basic  # noqa: E402
from prosemirror.test_builder import out, test_schema  # noqa: E402
from prosemirror.transform import AddMarkStep, ReplaceStep, Step  # noqa: E402

reproduced = []


def seq_and_merged(doc, s1, s2):
    r1 = s1.apply(doc)
    assert r1.failed is None, r1.failed
    r2 = s2.apply(r1.doc)
    assert r2.failed is None, r2.failed
    merged = s1.merge(s2)
    assert merged is not None, "steps did not merge"
    rm = merged.apply(doc)
    return r2.doc, merged, rm


# ---------------------------------------------------------------- finding 1
# merged ReplaceStep fails ("Cannot join note onto section") where the two-step
# sequence succeeds: content compatibility (NodeType.compatible_content) is not
# transitive, and the "other.to == self.from_" branch of ReplaceStep.merge
# replaces two join checks (X~Y, Y~Z) by one (X~Z).
def finding1():
    nodes = dict(basic.spec["nodes"])
    nodes["section"] = {"content": "heading block*", "group": "block"}
    nodes["note"] = {"content": "paragraph+", "group": "block"}
    S = Schema({"nodes": nodes, "marks": basic.spec["marks"]})
    n = S.node
    doc = n("doc", None, [
        n("section", None, [n("heading", {"level": 1}, [S.text("ab")]),
                            n("paragraph", None, [S.text("cd")])]),
        n("blockquote", None, [n("paragraph", None, [S.text("ef")])]),
        n("note", None, [n("paragraph", None, [S.text("gh")])]),
    ])
    doc.check()
    s1 = ReplaceStep(13, 19, Slice.empty)   # delete "f" .. "g": joins note onto blockquote
    s2 = ReplaceStep(7, 13, Slice.empty)    # delete "d" .. "e": joins blockquote onto section
    seq, merged, rm = seq_and_merged(doc, s1, s2)
    seq.check()
    print("F1 sequential result:", seq)
    print("F1 merged step      :", merged.to_json())
    print("F1 merged result    :", rm.doc, "| failed =", rm.failed)
    if rm.failed is not None or not rm.doc.eq(seq):
        reproduced.append("F1")


# ---------------------------------------------------------------- finding 2
# AddMarkStep/RemoveMarkStep.merge assume from <= to.  A step with from > to
# (accepted by the constructor, by from_json and by apply, where it duplicates
# content) is merged with a covering step into that covering step alone, so the
# merged step yields a different document / size change.
def finding2():
    doc = out["doc"](out["p"]("abcdef"))
    em = test_schema.mark("em")
    s1 = Step.from_json(test_schema, {"stepType": "addMark", "from": 5, "to": 2,
                                      "mark": {"type": "em"}})
    r1 = s1.apply(doc)
    s2 = AddMarkStep(2, 6, em)
    seq, merged, rm = seq_and_merged(doc, s1, s2)
    print("F2 sequential result:", seq, "size", seq.content.size)
    print("F2 merged step      :", merged.to_json())
    print("F2 merged result    :", rm.doc, "| failed =", rm.failed)
    if rm.failed is not None or not rm.doc.eq(seq) or rm.doc.content.size != seq.content.size:
        reproduced.append("F2")


for f in (finding1, finding2):
    try:
        f()
    except Exception as e:  # an internal error while reproducing is not a repro
        print(f.__name__, "did not run as expected:", repr(e))

print("reproduced:", reproduced)
sys.exit(1 if reproduced else 0)
