"""C05 repro: JSON round trip of documents / marks / steps.
Run from the checkout directory:  /venv/bin/python /tmp/hunt_out/C05/repro.py
"""
import json
import sys

from prosemirror.model import Fragment, Mark, Node, Slice
from prosemirror.test_builder import out, test_schema as S
from prosemirror.transform import AddMarkStep, ReplaceAroundStep, ReplaceStep, Step

doc, p, bq = out["doc"], out["p"], out["blockquote"]
hit = False


def wire(x):
    return json.loads(json.dumps(x))


def line(tag, ok, msg):
    global hit
    if ok:
        hit = True
        print(f"[{tag}] REPRODUCED: {msg}")
    else:
        print(f"[{tag}] not reproduced")


def outcome(step, d):
    r = step.apply(d)
    return ("fail", r.failed) if r.failed is not None else ("ok", str(r.doc))


# ---------------------------------------------------------------- F1
# A non-empty slice whose *size* is zero (a single node chain open on both
# sides, e.g. what Slice.max_open gives for an empty paragraph) is dropped by
# ReplaceStep.to_json / ReplaceAroundStep.to_json (guard is `if self.slice.size`
# instead of `if self.slice.content.size`).  The decoded step carries
# Slice.empty, is not equal to the original and has a different effect.
try:
    d = doc(p("ab"), p("cd"))
    sl = Slice.max_open(Fragment.from_(p()))  # <paragraph>(1,1), size 0
    st = ReplaceStep(0, 0, sl)
    j = st.to_json()
    back = Step.from_json(S, wire(j))
    o1, o2 = outcome(st, d), outcome(back, d)
    ok = (
        sl.size == 0
        and sl.content.size == 2
        and "slice" not in j
        and not back.slice.eq(st.slice)
        and o1 != o2
    )
    line(
        "F1a zero-size open slice lost by ReplaceStep.to_json",
        ok,
        f"slice {sl} -> json {json.dumps(j)} -> slice {back.slice}; apply on {d}: "
        f"original {o1}, decoded {o2}",
    )
except Exception as e:  # pragma: no cover
    line("F1a zero-size open slice lost by ReplaceStep.to_json", False, repr(e))

try:
    d = doc(p("ab"), p("cd"))
    sl = Slice(Fragment.from_(bq(p())), 2, 2)
    st = ReplaceAroundStep(3, 5, 4, 4, sl, 0)
    j = st.to_json()
    back = Step.from_json(S, wire(j))
    o1, o2 = outcome(st, d), outcome(back, d)
    ok = "slice" not in j and not back.slice.eq(st.slice) and o1 != o2
    line(
        "F1b zero-size open slice lost by ReplaceAroundStep.to_json",
        ok,
        f"slice {sl} -> json {json.dumps(j)}; apply on {d}: original {o1}, decoded {o2}",
    )
except Exception as e:  # pragma: no cover
    line("F1b zero-size open slice lost by ReplaceAroundStep.to_json", False, repr(e))

# ---------------------------------------------------------------- F2
# compute_attrs treats an explicit None like a missing attribute
# (`if given is None` where JS has `given === undefined`).  A null attribute
# value is therefore not preserved on decode: it is silently replaced by the
# default, or - for an attribute without default - decoding raises.
heading, image, paragraph = S.nodes["heading"], S.nodes["image"], S.nodes["paragraph"]
try:
    h = Node(heading, {"level": None}, Fragment.from_(S.text("x")), Mark.none)
    d = Node(S.nodes["doc"], {"meta": None}, Fragment.from_(h), Mark.none)
    d.check()
    j = d.to_json()
    back = Node.from_json(S, wire(j))
    ok = (not back.eq(d)) and back.to_json() != j
    line(
        "F2a null attr replaced by default on decode",
        ok,
        f"{json.dumps(j)} decodes to {json.dumps(back.to_json())}",
    )
except Exception as e:
    line("F2a null attr replaced by default on decode", False, repr(e))

try:
    img = Node(image, {"src": None, "alt": None, "title": None}, None, Mark.none)
    d = Node(S.nodes["doc"], {"meta": None}, Fragment.from_(Node(paragraph, {}, Fragment.from_(img), Mark.none)), Mark.none)
    d.check()
    j = wire(d.to_json())
    try:
        Node.from_json(S, j)
        line("F2b null value for attr without default cannot be decoded", False, "")
    except ValueError as e:
        line(
            "F2b null value for attr without default cannot be decoded",
            True,
            f"Node.from_json({json.dumps(j)}) raises ValueError({e})",
        )
except Exception as e:
    line("F2b null value for attr without default cannot be decoded", False, repr(e))

try:
    m = Mark(S.marks["link"], {"href": None, "title": None})
    st = AddMarkStep(1, 2, m)
    j = wire(st.to_json())
    try:
        Step.from_json(S, j)
        line("F2c step with null mark attr cannot be decoded", False, "")
    except ValueError as e:
        line(
            "F2c step with null mark attr cannot be decoded",
            True,
            f"Step.from_json({json.dumps(j)}) raises ValueError({e})",
        )
except Exception as e:
    line("F2c step with null mark attr cannot be decoded", False, repr(e))

sys.exit(1 if hit else 0)
