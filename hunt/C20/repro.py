"""Run from the checkout directory: /venv/bin/python /tmp/hunt_out/C20/repro.py"""
import signal
import sys

from prosemirror.model import Node
from prosemirror.test_builder import out
from prosemirror.test_builder import test_schema as S

doc, p, h1, bq = out["doc"], out["p"], out["h1"], out["blockquote"]


class Hang(Exception):
    pass


def _alarm(*_):
    raise Hang()


signal.signal(signal.SIGALRM, _alarm)


def guarded(fn):
    signal.setitimer(signal.ITIMER_REAL, 3)
    try:
        return fn()
    except Hang:
        return "HANG"
    except Exception as e:  # noqa: BLE001
        return f"EXC {type(e).__name__}: {e}"
    finally:
        signal.setitimer(signal.ITIMER_REAL, 0)


reproduced = 0

# F1: `if inner:` treats an inner result of 0 as "no difference"
cases = [
    ("text differs", doc(p("a")), doc(p("b"))),
    ("nested markup differs", doc(bq(p("a"))), doc(bq(h1("a")))),
]
bad = []
for label, a, b in cases:
    assert not a.content.eq(b.content)
    base = guarded(lambda: a.content.find_diff_start(b.content))  # noqa: B023
    shifted = guarded(lambda: a.content.find_diff_start(b.content, -1))  # noqa: B023
    if base is not None and shifted != base - 1:
        bad.append(f"{label}: pos=0 -> {base}, pos=-1 -> {shifted} (expected {base - 1})")
if bad:
    reproduced += 1
    print("[F1 find_diff_start drops an inner difference at position 0] REPRODUCED: " + "; ".join(bad))
else:
    print("[F1 find_diff_start drops an inner difference at position 0] not reproduced")

# F2: compare_deep uses Python ==, so True == 1 / False == 0 count as identical markup
A = Node.from_json(
    S,
    {"type": "doc", "content": [{"type": "heading", "attrs": {"level": 1}, "content": [{"type": "text", "text": "x"}]}]},
)
B = Node.from_json(
    S,
    {"type": "doc", "content": [{"type": "heading", "attrs": {"level": True}, "content": [{"type": "text", "text": "x"}]}]},
)
s = guarded(lambda: A.content.find_diff_start(B.content))
e = guarded(lambda: A.content.find_diff_end(B.content))
if s is None and e is None:
    reproduced += 1
    print(
        "[F2 bool/int attrs compare as same markup] REPRODUCED: heading level 1 vs level True -> "
        f"find_diff_start={s}, find_diff_end={e} (upstream JS: 0 and {{a: 3, b: 3}})"
    )
else:
    print("[F2 bool/int attrs compare as same markup] not reproduced")

sys.exit(1 if reproduced else 0)
