"""Reproduces the C04 findings.  Run from the worktree directory:
    cd /tmp/hunt_wt_C04 && /venv/bin/python /tmp/hunt_out/C04/repro.py
Exits 1 if any finding reproduces, 0 otherwise."""
import os
import signal
import sys

sys.path.insert(0, os.getcwd())
import prosemirror

assert prosemirror.__file__.startswith(os.getcwd()), prosemirror.__file__

from prosemirror.model import Fragment, Node, Schema, Slice
from prosemirror.schema.basic import schema as basic
from prosemirror.test_builder import out, test_schema
from prosemirror.transform import (
    AddNodeMarkStep,
    AttrStep,
    ReplaceStep,
    Transform,
    lift_target,
)
from prosemirror.transform.doc_attr_step import DocAttrStep

doc, p, ul, li, bq, hr = (out[k] for k in ("doc", "p", "ul", "li", "blockquote", "hr"))


class Hang(Exception):
    pass


def _alarm(*_a):
    raise Hang()


signal.signal(signal.SIGALRM, _alarm)

strict = Schema({
    "nodes": {
        "doc": {"content": "heading body"},
        "heading": {"content": "text*"},
        "body": {"content": "(paragraph | figure | table | pair)+"},
        "paragraph": {"content": "inline*", "group": "block"},
        "figure": {"content": "caption fbody", "group": "block"},
        "caption": {"content": "text*"},
        "fbody": {"content": "paragraph+", "isolating": True},
        "pair": {"content": "a b", "group": "block"},
        "a": {"content": "text*"},
        "b": {"content": "text*"},
        "table": {"content": "row+", "group": "block", "isolating": True},
        "row": {"content": "cell+"},
        "cell": {"content": "paragraph+", "isolating": True},
        "text": {"group": "inline"},
        "img": {"inline": True, "group": "inline"},
    },
    "marks": {
        "em": {},
        "strong": {},
        "color": {"attrs": {"c": {"default": "red"}}, "excludes": ""},
        "code": {"excludes": "_"},
        "a1": {"excludes": "b1"},
        "b1": {},
    },
})
sn, st = strict.node, strict.text

reproduced = []


def finding(name):
    def deco(f):
        signal.alarm(5)
        try:
            bad = f()
        except Hang:
            bad = "HANG (no result after 5 s)"
        except Exception as e:  # harness problem -> count as not reproduced, but show
            bad = None
            print(f"[{name}] harness error {type(e).__name__}: {e}")
        finally:
            signal.alarm(0)
        print(f"[{name}] {'REPRODUCED: ' + str(bad) if bad else 'not reproduced'}")
        if bad:
            reproduced.append(name)
        return f
    return deco


def undo_all(tr):
    """apply inverted steps in reverse; returns (doc or None, error string or None)"""
    cur = tr.doc
    for i in range(len(tr.steps) - 1, -1, -1):
        inv = tr.steps[i].invert(tr.docs[i])
        r = inv.apply(cur)
        if r.failed:
            return None, f"inverse of step {i} failed: {r.failed}"
        cur = r.doc
    return cur, None


# ---------------------------------------------------------------- F1
@finding("F1 DocAttrStep.invert KeyError on undeclared doc attribute")
def f1():
    d = basic.node("doc", None, [basic.node("paragraph", None, [basic.text("hi")])])
    tr = Transform(d).set_doc_attribute("meta", 1)  # applies, 1 step recorded
    assert len(tr.steps) == 1
    try:
        undo_all(tr)
    except KeyError as e:
        return f"step applied and recorded, but invert raised KeyError({e})"
    return None


# ---------------------------------------------------------------- F2
@finding("F2 UnicodeDecodeError when a position splits a surrogate pair")
def f2():
    d = doc(p("a\U0001F600b"))  # content size 6: positions 2..4 are the astral char
    msgs = []
    for name, f in [
        ("ReplaceStep(2,3,empty).apply", lambda: ReplaceStep(2, 3, Slice.empty).apply(d)),
        ("Transform.delete(2,3)", lambda: Transform(d).delete(2, 3)),
        ("Transform.split(3)", lambda: Transform(d).split(3)),
        ("Transform.add_mark(1,3,em)", lambda: Transform(d).add_mark(1, 3, test_schema.mark("em"))),
    ]:
        try:
            f()
        except UnicodeDecodeError:
            msgs.append(name)
    return ("UnicodeDecodeError from " + ", ".join(msgs)) if msgs else None


# ---------------------------------------------------------------- F3
@finding("F3 AttrStep(value=None) on attribute without default raises ValueError")
def f3():
    img = test_schema.node("image", {"src": "x.png"})
    d = doc(p(img))
    try:
        r = AttrStep(1, "src", None).apply(d)
    except ValueError as e:
        return f"apply raised ValueError({e}) instead of returning a StepResult"
    return None


# ---------------------------------------------------------------- F4
@finding("F4 Transform.replace never terminates (Fitter: negative Slice.size)")
def f4():
    d = sn("doc", None, [sn("heading"), sn("body", None, [sn("pair", None, [sn("a"), sn("b")])])])
    d.check()
    inner = sn("doc", None, [sn("heading", None, [st("ab")]), sn("body", None, [sn("paragraph")])])
    sl = Slice(Fragment.from_([inner, st("xyz")]), 0, 0)
    size = d.content.size
    Transform(d).replace(size - 1, size, sl)  # hangs -> alarm
    return None


# ---------------------------------------------------------------- F5
@finding("F5 Transform.replace AttributeError in Fitter.find_fittable")
def f5():
    d = sn("doc", None, [
        sn("heading"),
        sn("body", None, [
            sn("figure", None, [sn("caption", None, [st("xyhello")]), sn("fbody", None, [sn("paragraph")])]),
            sn("paragraph"),
        ]),
    ])
    d.check()
    sl = Slice(
        Fragment.from_([
            sn("table", None, [sn("row", None, [sn("cell", None, [sn("paragraph")])])]),
            sn("img"),
        ]),
        3,
        0,
    )
    try:
        Transform(d).replace(6, 8, sl)
    except AttributeError as e:
        return f"AttributeError: {e}"
    return None


# ---------------------------------------------------------------- F6
@finding("F6 lift out of a list item cannot be undone (bundled list schema)")
def f6():
    d = doc(ul(li(p("a"), bq(p("c")))))
    d.check()
    # the blockquote is the 2nd child of the list item: positions 5..10
    from prosemirror.model import NodeRange
    f_, t_ = d.resolve(5), d.resolve(10)
    rng = NodeRange(f_, t_, 2)
    target = lift_target(rng)
    assert target == 0, target
    tr = Transform(d).lift(rng, target)
    assert str(tr.doc) == 'doc(bullet_list(list_item(paragraph("a"))), blockquote(paragraph("c")))', str(tr.doc)
    res, err = undo_all(tr)
    if err:
        return err
    return None if res.eq(d) else "undo not exact"


# ---------------------------------------------------------------- F7
@finding("F7 AddNodeMarkStep.invert is not an exact undo when exclusion removes marks")
def f7():
    msgs = []
    # (a) mark excluding several marks
    im = sn("img", None, None, [strict.mark("em"), strict.mark("strong")])
    d = sn("doc", None, [sn("heading"), sn("body", None, [sn("paragraph", None, [im])])])
    d.check()
    tr = Transform(d).add_node_mark(4, strict.mark("code"))
    res, err = undo_all(tr)
    if err or not res.eq(d):
        msgs.append(f"code(excludes _) over em+strong: undo gives {res} instead of {d}")
    # (b) asymmetric exclusion
    im = sn("img", None, None, [strict.mark("b1")])
    d = sn("doc", None, [sn("heading"), sn("body", None, [sn("paragraph", None, [im])])])
    tr = Transform(d).add_node_mark(4, strict.mark("a1"))
    res, err = undo_all(tr)
    if err or not res.eq(d):
        msgs.append(f"a1(excludes b1) over b1: undo gives {res} instead of {d}")
    return "; ".join(msgs) or None


# ---------------------------------------------------------------- F8
@finding("F8 remove_mark undo reorders same-type marks (excludes: '')")
def f8():
    ms = [strict.mark("color", {"c": "foo"}), strict.mark("color", {"c": "red"})]
    d = sn("doc", None, [sn("heading"), sn("body", None, [sn("paragraph", None, [st("hello", ms)])])])
    d.check()
    tr = Transform(d).remove_mark(5, 8, None)
    res, err = undo_all(tr)
    if err:
        return err
    return None if res.eq(d) else "undo restores marks in a different order -> doc not equal to start"


# ---------------------------------------------------------------- F9
@finding("F9 set_node_markup(empty textblock -> leaf type) cannot be undone")
def f9():
    d = doc(p(), p("x"))
    tr = Transform(d).set_node_markup(0, test_schema.nodes["horizontal_rule"], None)
    assert str(tr.doc) == 'doc(horizontal_rule, paragraph("x"))', str(tr.doc)
    res, err = undo_all(tr)
    if err:
        return err
    return None if res.eq(d) else "undo not exact"


print()
print(f"{len(reproduced)} finding(s) reproduced")
sys.exit(1 if reproduced else 0)
