"""Reproduces the C13 findings.  Run from the worktree dir:
    cd /tmp/hunt_wt_C13 && /venv/bin/python /tmp/hunt_out/C13/repro.py
Exits 1 if any finding reproduces, 0 otherwise."""
import os
import sys

sys.path.insert(0, os.getcwd())
import prosemirror  # noqa: E402

assert prosemirror.__file__.startswith(os.getcwd()), prosemirror.__file__
from prosemirror.model import Schema  # noqa: E402
from prosemirror.test_builder import out, test_schema  # noqa: E402
from prosemirror.transform import Transform  # noqa: E402

doc, p, img, br = out["doc"], out["p"], out["img"], out["br"]
reproduced = []


def finding(name):
    def deco(fn):
        try:
            hit = fn()
        except Exception as e:  # noqa: BLE001
            print(f"[{name}] unexpected {type(e).__name__}: {e}")
            hit = True
        print(f"[{name}] {'REPRODUCED' if hit else 'not reproduced'}")
        if hit:
            reproduced.append(name)
        return fn
    return deco


# ---------------------------------------------------------------- F1
@finding("F1 set_node_markup(pos, type, attrs, marks=[]) does not clear the marks")
def f1():
    strong = test_schema.mark("strong")
    image = test_schema.nodes["image"].create({"src": "i"}, None, [strong])
    d = doc(p(image))
    tr = Transform(d).set_node_markup(1, None, {"src": "i"}, [])
    got = tr.doc.node_at(1)
    print("   marks after set_node_markup(..., marks=[]):", got.marks)
    return len(got.marks) != 0


# ---------------------------------------------------------------- F2
@finding("F2 set_node_attribute(pos, attr, None) stores the default / raises instead of None")
def f2():
    d = doc(out["h2"]("x"))
    tr = Transform(d).set_node_attribute(0, "level", None)
    lvl = tr.doc.node_at(0).attrs["level"]
    print("   heading level after set_node_attribute(0, 'level', None):", lvl, "(was 2)")
    hit = lvl is not None
    d2 = doc(p(img()))
    try:
        Transform(d2).set_node_attribute(1, "src", None)
        print("   src=None accepted")
    except ValueError as e:
        print("   set_node_attribute(1, 'src', None) raised", type(e).__name__, e)
        hit = True
    return hit


# ---------------------------------------------------------------- F3
ws_schema = Schema({
    "nodes": {
        "doc": {"content": "block+"},
        "paragraph": {"content": "text*", "group": "block"},
        "verse": {"content": "text*", "group": "block", "whitespace": "pre"},
        "text": {},
    },
})


@finding("F3 set_block_type to a whitespace:'pre' (non-code) type rewrites newlines to spaces")
def f3():
    n = ws_schema.nodes
    d = n["doc"].create(None, [n["paragraph"].create(None, ws_schema.text("a\nb"))])
    assert n["verse"].whitespace == "pre"
    tr = Transform(d).set_block_type(1, 1, n["verse"], None)
    print("   text after set_block_type ->verse:", repr(tr.doc.text_content))
    return tr.doc.text_content != "a\nb"


# ---------------------------------------------------------------- F4
cm_schema = Schema({
    "nodes": {
        "doc": {"content": "paragraph+"},
        "paragraph": {"content": "inline*"},
        "text": {"group": "inline"},
        "img": {"inline": True, "group": "inline"},
    },
    "marks": {"comment": {"excludes": "", "attrs": {"id": {}}}},
})


@finding("F4 remove_node_mark(pos, MarkType) leaves a mark of that type on the node")
def f4():
    n, m = cm_schema.nodes, cm_schema.marks["comment"]
    node = n["img"].create(None, None, [m.create({"id": 1}), m.create({"id": 2})])
    d = n["doc"].create(None, [n["paragraph"].create(None, [node])])
    tr = Transform(d).remove_node_mark(1, m)
    left = tr.doc.node_at(1).marks
    print("   marks left:", [x.to_json() for x in left])
    # contrast: the range version removes both
    tr2 = Transform(d).remove_mark(1, 2, m)
    assert not tr2.doc.node_at(1).marks
    return bool(m.is_in_set(left))


# ---------------------------------------------------------------- F5
@finding("F5 add_mark / remove_mark raise UnicodeDecodeError when a boundary is inside a surrogate pair")
def f5():
    d = doc(p("a\U0001F600b"))  # positions: 1 a 2 [hi 3 lo] 4 b 5
    hit = False
    for label, fn in (
        ("add_mark", lambda: Transform(d).add_mark(1, 3, test_schema.mark("em"))),
        ("remove_mark", lambda: Transform(doc(p(out["em"]("a\U0001F600b")))).remove_mark(1, 3, test_schema.marks["em"])),
    ):
        try:
            fn()
            print("  ", label, "ok")
        except UnicodeDecodeError as e:
            print("  ", label, "raised UnicodeDecodeError:", e)
            hit = True
    return hit


# ---------------------------------------------------------------- F6 (same as upstream)
wrap_schema = Schema({
    "nodes": {
        "doc": {"content": "paragraph+"},
        "paragraph": {"content": "inline*"},
        "text": {"group": "inline"},
        # inline node with content that only allows mark `a` inside
        "wrap": {"inline": True, "group": "inline", "content": "text*", "marks": "a"},
    },
    "marks": {"a": {}, "k": {"excludes": "a"}},
})


@finding("F6 add_mark strips an unrelated mark inside a non-leaf inline node (upstream behaves the same)")
def f6():
    s = wrap_schema
    a, k = s.mark("a"), s.mark("k")
    w = s.nodes["wrap"].create(None, s.text("xy", [a]), [a])
    d = s.nodes["doc"].create(None, [s.nodes["paragraph"].create(None, [w])])
    d.check()
    tr = Transform(d).add_mark(1, 5, k)
    got = tr.doc.node_at(1)
    print("   before:", d, " after:", tr.doc, " steps:", [st.to_json()["stepType"] for st in tr.steps])
    inner = got.child(0)
    # `k` is not allowed inside wrap, so inner text must keep `a`; and wrap itself
    # must either carry k (a removed) or be left alone.
    inner_lost = not a.is_in_set(inner.marks) and not k.is_in_set(inner.marks)
    outer_lost = not a.is_in_set(got.marks) and not k.is_in_set(got.marks)
    print("   inner text lost `a` without gaining `k`:", inner_lost, "; wrap lost `a` without gaining `k`:", outer_lost)
    return inner_lost or outer_lost


print()
print("reproduced:", len(reproduced))
for r in reproduced:
    print(" -", r)
sys.exit(1 if reproduced else 0)
