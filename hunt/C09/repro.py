"""C09 repro. Run from the worktree: cd /tmp/hunt_wt_C09 && /venv/bin/python /tmp/hunt_out/C09/repro.py
Exits 1 if any finding reproduces, 0 otherwise."""
import json
import os
import sys

sys.path.insert(0, os.getcwd())
import prosemirror  # noqa: E402

print("library:", prosemirror.__file__)

from prosemirror.test_builder import out, test_schema as schema  # noqa: E402
from prosemirror.transform import Step  # noqa: E402

doc, p = out["doc"], out["p"]
SP = "surrogatepass"


def units(s):
    return s.encode("utf-16-le", SP)


reproduced = []


def finding(name, fn, expect):
    """fn() must return `expect` (compared as UTF-16 unit bytes when str)."""
    try:
        got = fn()
    except Exception as e:  # noqa: BLE001
        print(f"[REPRODUCED] {name}: raised {type(e).__name__}: {e}")
        reproduced.append(name)
        return
    g = units(got) if isinstance(got, str) else got
    x = units(expect) if isinstance(expect, str) else expect
    if g != x:
        print(f"[REPRODUCED] {name}: got {got!r}, expected {expect!r}")
        reproduced.append(name)
    else:
        print(f"[ok] {name}")


# doc(p("a😀b")): tokens  <p> a D83D DE00 b </p>   -> size 6, position 3 is between the two
# halves of the pair. JavaScript answers every query below with lone-surrogate strings.
d = doc(p("a\U0001F600b"))
assert d.content.size == 6

# ---- F1: every accessor that has to split a text node inside a surrogate pair crashes
finding("F1a resolve(3).node_before.text", lambda: d.resolve(3).node_before.text, "a\ud83d")
finding("F1b resolve(3).node_after.text", lambda: d.resolve(3).node_after.text, "\ude00b")
finding("F1c text_between(3,5)", lambda: d.text_between(3, 5), "\ude00b")
finding("F1d text_between(0,3)", lambda: d.text_between(0, 3), "a\ud83d")
finding("F1e slice(3,5).size", lambda: d.slice(3, 5).size, 2)
finding("F1f cut(0,3).content.size", lambda: d.cut(0, 3).content.size, 4)
# the library itself hands out such a position:
d2 = doc(p("a\U0001F601b"))
diff = d.content.find_diff_start(d2.content)
print("   find_diff_start ->", diff)
finding("F1g slice(find_diff_start, +1)", lambda: d.slice(diff, diff + 1).size, 1)
# and a JS peer's step at that position cannot be applied
step = Step.from_json(schema, {"stepType": "replace", "from": 3, "to": 4})
finding("F1h ReplaceStep(3,4).apply(doc).doc.content.size", lambda: step.apply(d).doc.content.size, 5)

# ---- F2: a document a JS peer can legitimately produce (lone surrogate in a text node)
# cannot even be measured
js = json.loads('{"type":"doc","content":[{"type":"paragraph","content":[{"type":"text","text":"a\\ud83d"}]}]}')
finding("F2 from_json(lone surrogate).content.size", lambda: schema.node_from_json(js).content.size, 4)

# ---- F3: test_builder counts code points for <tag> positions inside strings
finding("F3 test_builder tag after astral char", lambda: doc(p("\U0001F600<a>x")).tag["a"], 3)

# ---- F4 (minor, API): depth argument is optional upstream
rp = d.resolve(2)
finding("F4a ResolvedPos.node() without depth", lambda: rp.node().type.name, "paragraph")
finding("F4b ResolvedPos.index_after() without depth", lambda: rp.index_after(), 1)

print()
print(f"{len(reproduced)} finding check(s) reproduced")
sys.exit(1 if reproduced else 0)
