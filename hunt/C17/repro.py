"""Repro for C17 findings. Run from the worktree dir: /venv/bin/python /tmp/hunt_out/C17/repro.py
Exit 1 if any (counted) finding reproduces, 0 otherwise."""
import os, sys
sys.path.insert(0, os.getcwd())
import prosemirror
print("library:", prosemirror.__file__)
from prosemirror.model import Fragment, Slice
from prosemirror.transform import Transform, ReplaceStep, ReplaceAroundStep, StepMap
from prosemirror.test_builder import out as b, test_schema as schema

doc, p, pre, h1 = b["doc"], b["p"], b["pre"], b["h1"]


def both_orders(d, A, B):
    """returns (resultAB, resultBA) where each is a doc, or a string describing the failure"""
    def run(first, second):
        r1 = first.apply(d)
        assert not r1.failed, r1.failed
        m = second.map(first.get_map())
        if m is None:
            return "DROPPED"
        r2 = m.apply(r1.doc)
        return "FAILED: " + r2.failed if r2.failed else r2.doc
    return run(A, B), run(B, A)


def report(name, d, A, B):
    ab, ba = both_orders(d, A, B)
    print(f"--- {name}")
    print("  doc =", d)
    print("  A   =", A.to_json())
    print("  B   =", B.to_json())
    print("  A then B' :", ab)
    print("  B then A' :", ba)
    bad = isinstance(ab, str) or isinstance(ba, str) or not ab.eq(ba)
    print("  VIOLATION" if bad else "  ok")
    return bad


counted = []

# F1: an open-ended ReplaceStep (built by Transform.replace) re-parents the untouched
# tail of the textblock into a code_block; a separated mark/insert step on that tail conflicts.
d = doc(p("abcd"))
A = Transform(d).replace(1, 2, Slice(Fragment.from_([p("x"), pre()]), 1, 1)).steps[0]
assert isinstance(A, ReplaceStep) and (A.from_, A.to) == (1, 2)
B = Transform(d).add_mark(4, 5, schema.mark("em")).steps[0]       # touches [4,5]; 'b','c' untouched between
counted.append(report("F1a replace(open slice -> code_block) vs add_mark", d, A, B))
B2 = Transform(d).insert(4, schema.nodes["hard_break"].create()).steps[0]  # touches [4,4]
counted.append(report("F1b replace(open slice -> code_block) vs insert hard_break", d, A, B2))

# F2 (informational, 'inside the gap' of a ReplaceAroundStep): set_node_markup / set_block_type vs split
d = doc(h1("x y"))
A = Transform(d).set_node_markup(0, schema.nodes["paragraph"], None).steps[0]   # touches [0,1] and [4,5]
B = Transform(d).split(3).steps[0]                                               # touches [3,3]
assert isinstance(A, ReplaceAroundStep)
info = report("F2 (informational) set_node_markup vs split inside its gap", d, A, B)

# O1 (informational): ReplaceStep.map loses the structure flag
s = ReplaceStep(2, 4, Slice.empty, True).map(StepMap([10, 0, 1]))
print("--- O1 (informational) structure flag after ReplaceStep.map:", s.structure, "(was True)")

sys.exit(1 if any(counted) else 0)
