#!/bin/sh
# Build the overlay venv used by every check: python 3.12 of /venv (has the repo's deps),
# plus crosshair-tool/z3-solver from the offline wheelhouse.  Idempotent.
set -e
cd "$(dirname "$0")"
V=.venv
if [ ! -x "$V/bin/python" ] || ! "$V/bin/python" -c "import crosshair, z3" 2>/dev/null; then
  rm -rf "$V"
  /venv/bin/python -m venv "$V"
  SP=$("$V/bin/python" -c "import sysconfig; print(sysconfig.get_paths()['purelib'])")
  printf '%s\n' "import site; site.addsitedir('/venv/lib/python3.12/site-packages')" > "$SP/verif_overlay.pth"
  PIP_NO_INDEX=1 "$V/bin/python" -m pip install -q --no-index --find-links /opt/veriftools/wheels crosshair-tool z3-solver
fi
"$V/bin/python" -c "import crosshair, z3, sys; sys.path.insert(0,'/repo'); import prosemirror; print('verif venv ok', z3.get_version_string())"
