"""Executes one obligation (in a pool process): CrossHair analysis + vacuity twin."""
import importlib
import os
import sys
import time
from collections import Counter

import engine  # noqa: E402,F401  (puts the repository on sys.path)

_z3stats = {"queries": 0, "sat": 0, "unsat": 0, "unknown": 0, "solver_s": 0.0}
_patched = [False]


def patch_z3():
    if _patched[0]:
        return
    import z3
    orig = z3.Solver.check

    def check(self, *a):
        t = time.perf_counter()
        r = orig(self, *a)
        _z3stats["solver_s"] += time.perf_counter() - t
        _z3stats["queries"] += 1
        k = str(r)
        _z3stats[k if k in ("sat", "unsat") else "unknown"] += 1
        return r

    z3.Solver.check = check
    _patched[0] = True


def z3_snapshot():
    return dict(_z3stats)


def z3_delta(before):
    return {k: _z3stats[k] - before[k] for k in _z3stats}


def analyze(fn, cond_timeout, path_timeout):
    from crosshair.core_and_libs import analyze_function, run_checkables
    from crosshair.options import AnalysisKind, AnalysisOptionSet, DEFAULT_OPTIONS
    stats = Counter()
    opts = DEFAULT_OPTIONS.overlay(AnalysisOptionSet(
        per_condition_timeout=cond_timeout, per_path_timeout=path_timeout,
        max_uninteresting_iterations=sys.maxsize, report_all=True,
        analysis_kind=[AnalysisKind.PEP316], stats=stats))
    checkables = analyze_function(fn, opts)
    msgs = []
    for c in checkables:
        msgs.extend(run_checkables([c]))
    states = [m.state.name for m in msgs]
    return states, [m.message for m in msgs], stats


def run_obligation(task):
    from engine import rt, stepbudget
    t0 = time.time()
    ob = task["ob"]
    res = {"name": ob["name"], "fn": ob["fn"], "P": ob.get("P", {}), "module": task["module"],
           "kind": ob.get("kind", "crosshair")}
    try:
        patch_z3()
        stepbudget.start_coverage()
        mod = importlib.import_module(task["module"])
        rt.OPEN_TAGS = set(task.get("open_tags", []))
        rt.KNOWN_HITS = set()
        if hasattr(mod, "configure"):
            mod.configure(ob.get("P", {}))
        if res["kind"] == "direct":
            z0 = z3_snapshot()
            out = getattr(mod, ob["fn"])(ob.get("P", {}))
            res.update(out)
            d = z3_delta(z0)
            for k in d:
                res.setdefault(k, d[k])
            res.setdefault("paths", res.get("queries", 0))
            res.setdefault("reached", res.get("queries", 0))
            res["witness"] = res.get("witness", "n/a")
        else:
            fn = getattr(mod, ob["fn"])
            if hasattr(mod, "symbolic_setup"):
                mod.symbolic_setup()          # integer models etc.; never active during replay
            timeout = float(ob.get("timeout", 60)) * float(os.environ.get("VERIF_TIMEOUT_SCALE", "1"))
            ptimeout = float(ob.get("path_timeout", 30))
            # ---- vacuity twin --------------------------------------------------
            rt.reset()
            rt.WITNESS = True
            rt.EXCLUDES = []
            states, msgs, _ = analyze(fn, min(timeout, 60.0), ptimeout)
            rt.WITNESS = False
            if rt.CE and any(s in ("POST_FAIL",) for s in states):
                res["witness"] = "refuted"
                res["witness_args"] = rt.CE[-1]["args"]
            else:
                res["witness"] = "not-refuted:" + ",".join(states)
            # ---- main analysis, excluding listed known findings one at a time ----
            excludes = [compile(e, "<known>", "eval") for e in task.get("exclude", [])]
            argnames = fn.__code__.co_varnames[:fn.__code__.co_argcount]

            def mk(code):
                return lambda *a: bool(eval(code, {}, dict(zip(argnames, a))))
            rt.EXCLUDES = [mk(c) for c in excludes]
            rt.reset()
            z0 = z3_snapshot()
            states, msgs, stats = analyze(fn, timeout, ptimeout)
            d = z3_delta(z0)
            res.update(d)
            res["paths"] = int(stats.get("num_paths", 0))
            res["reached"] = rt.REACHED
            res["states"] = states
            if any(s in ("POST_FAIL", "POST_ERR", "EXEC_ERR", "SYNTAX_ERR", "IMPORT_ERR") for s in states):
                if rt.CE and "POST_FAIL" in states:
                    res["status"] = "refuted"
                    res["ce"] = rt.CE[-1]
                else:
                    res["status"] = "harness_error"
                    res["detail"] = "; ".join(msgs)[:2000]
            elif states and all(s == "CONFIRMED" for s in states):
                res["status"] = "confirmed"
            else:
                res["status"] = "inconclusive"
                res["detail"] = ",".join(states) + " " + "; ".join(msgs)[:300]
            rt.EXCLUDES = []
        res["functions"] = sorted(stepbudget.covered)
        res["known_tags"] = sorted(rt.KNOWN_HITS)
    except BaseException as e:  # noqa: BLE001
        import traceback
        res["status"] = "harness_error"
        res["detail"] = "%s: %s\n%s" % (type(e).__name__, e, traceback.format_exc()[-1500:])
    res["wall_s"] = round(time.time() - t0, 2)
    return res
