"""Run-time support shared by every harness function.

A harness function has the shape

    def ob_x(a: int, b: int) -> bool:
        '''post: _'''
        return rt.run(_x, a, b)

    def _x(a, b):
        if not (precondition): return rt.SKIP          # outside the property's quantifier
        ... call the real code, compare with the oracle ...
        return rt.fin(ok, "what was compared")

rt.run
  * turns any `Exception` escaping the body into a failure (CrossHair's own control-flow
    exceptions derive from BaseException and pass through untouched);
  * in witness mode (vacuity twin) turns a body that *reaches* rt.fin into a failure, so the
    solver must produce an input that reaches the final assertion;
  * on failure realises the symbolic arguments and records them (the counterexample the
    driver replays on plain CPython);
  * honours exclusions of known findings.
"""
import os

SKIP = True          # value returned by a body for inputs outside the quantifier

WITNESS = False      # vacuity-twin mode
REACHED = 0          # executions that reached rt.fin (non-trivial paths)
CALLS = 0            # executions of rt.run
CE = []              # recorded failures: dict(args=..., why=..., exc=...)
EXCLUDES = []        # predicates over the argument tuple (known findings)
_why = [None]


class Reached(Exception):
    pass


def fin(ok, why=None):
    """Final assertion of a harness body."""
    global REACHED
    REACHED += 1
    if WITNESS:
        raise Reached()
    if not ok:
        try:
            _why[0] = _jsonable(_realize(why))
        except Exception:  # noqa: BLE001
            _why[0] = None
    return bool(ok)


def _realize(v):
    try:
        from crosshair import deep_realize
        return deep_realize(v)
    except ImportError:  # plain replay without crosshair importable
        return v


def run(body, *args):
    global CALLS
    CALLS += 1
    _why[0] = None
    exc = None
    reached = False
    try:
        for ex in EXCLUDES:
            if ex(*args):
                return True
        ok = body(*args)
        if ok is not True and ok is not False:
            ok = bool(ok)
    except Reached:
        ok = False
        reached = True
    except Exception as e:  # noqa: BLE001  (never BaseException: CrossHair steers with those)
        ok = False
        exc = "%s: %s" % (type(e).__name__, str(e)[:300])
    if WITNESS and not reached:
        # in witness mode only "reached the final assertion" counts as a refutation
        return True
    if not ok:
        CE.append({"args": [_jsonable(_realize(a)) for a in args], "why": _why[0], "exc": exc})
    return ok


def _jsonable(v):
    if isinstance(v, (bool, int, str)) or v is None:
        return v
    if isinstance(v, float):
        return v
    if isinstance(v, (list, tuple)):
        return [_jsonable(x) for x in v]
    if isinstance(v, dict):
        return {str(k): _jsonable(x) for k, x in v.items()}
    return repr(v)


OPEN_TAGS = set()    # tags of open known findings (from known_findings.json, set by the worker)
KNOWN_HITS = set()


def known_mode(tag):
    """A harness that recognises a *listed* failure mode (identified by call site + mode in
    known_findings.json) calls this; True = listed as an open finding (recorded, not a new violation)."""
    if tag in OPEN_TAGS:
        KNOWN_HITS.add(tag)
        return True
    return False


def concrete(*vals):
    """Realise symbolic values (each realisation is a fork of the path tree: the remaining
    values are explored on other paths, so exhaustiveness is kept).  No-op on plain CPython."""
    out = tuple(_realize(v) for v in vals)
    return out if len(out) != 1 else out[0]


def pick(x, lo, hi):
    """Concrete int equal to x on this path, for lo <= x <= hi.  A linear chain of solver-decided
    equality tests: exactly one leaf of the path tree per feasible value (cheaper in paths than
    CrossHair's own realisation).  On plain CPython returns x."""
    if not _is_symbolic(x):
        return x
    if x < lo or x > hi:
        return _realize(x)
    while lo < hi:                       # binary chain: one leaf per feasible value, log2(n) decisions
        mid = (lo + hi) // 2
        if x <= mid:
            hi = mid
        else:
            lo = mid + 1
    return lo


def _is_symbolic(x):
    try:
        from crosshair import NoTracing
        from crosshair.tracers import is_tracing
    except ImportError:
        return False
    if not is_tracing():
        return False
    with NoTracing():
        return type(x) not in (int, bool)


def pickb(x):
    return True if x else False


class _Null:
    def __enter__(self):
        return self

    def __exit__(self, *a):
        return False


def untraced():
    """Context in which CrossHair does not intercept execution (oracle code on realised values
    runs at native speed).  Only realised values may be touched inside."""
    try:
        from crosshair import NoTracing
        from crosshair.tracers import is_tracing
        if is_tracing():
            return NoTracing()
    except ImportError:
        pass
    return _Null()


def first_diff(got, want):
    if isinstance(got, dict) and isinstance(want, dict):
        for k in want:
            if got.get(k) != want[k]:
                return "%s: got %r want %r" % (k, got.get(k), want[k])
        for k in got:
            if k not in want:
                return "%s: unexpected %r" % (k, got[k])
        return None
    return None if got == want else "got %r want %r" % (got, want)


def reset():
    global REACHED, CALLS
    REACHED = 0
    CALLS = 0
    del CE[:]
    _why[0] = None
