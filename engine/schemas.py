"""Schema catalogue (the 'configurations' quantifier).  All specs derive from the bundled
basic/list specs; strict/title/fixed/docmarks/iso are the variants used by
tests/prosemirror_transform/tests/test_trans.py; table and the mark-exclusion variants are
hand-written in the same style."""
from prosemirror.model import Schema
from prosemirror.schema.basic import schema as basic_schema
from prosemirror.schema.list import add_list_nodes

_bn = basic_schema.spec["nodes"]
_bm = basic_schema.spec["marks"]


def _list_nodes():
    nodes = add_list_nodes(dict(_bn), "paragraph block*", "block")
    nodes["doc"] = {"content": "block+", "attrs": {"meta": {"default": None}}}
    return nodes


def spec_of(name):
    if name == "basic":
        return basic_schema.spec
    ln = _list_nodes()
    if name == "list":
        return {"nodes": ln, "marks": _bm}
    if name == "strict":
        n = dict(ln)
        n["doc"] = {"content": "heading body"}
        n["body"] = {"content": "block+"}
        return {"nodes": n, "marks": _bm}
    if name == "title":
        n = dict(ln)
        n["title"] = {"content": "text*"}
        n["doc"] = {"content": "title? block*"}
        return {"nodes": n, "marks": _bm}
    if name == "fixed":
        return {"nodes": {"doc": {"content": "block+"}, "a": {"content": "inline*"}, "b": {"content": "inline*"},
                          "block": {"content": "a b"}, "text": {"group": "inline"}}}
    if name == "docmarks":
        n = dict(ln)
        n["doc"] = {"content": "block+", "marks": "_"}
        return {"nodes": n, "marks": _bm}
    if name == "iso":
        n = dict(ln)
        n["iso"] = {"group": "block", "content": "block+", "isolating": True}
        return {"nodes": n, "marks": _bm}
    if name == "table":
        n = dict(ln)
        n["table"] = {"group": "block", "content": "row+", "isolating": True}
        n["row"] = {"content": "cell+"}
        n["cell"] = {"content": "block+", "isolating": True}
        return {"nodes": n, "marks": _bm}
    if name == "cx":
        # unusual content expressions: star / plus first in a choice or optional group, bounded ranges
        return {"nodes": {"doc": {"content": "(paragraph* | heading) sec*"},
                          "sec": {"content": "(heading+ paragraph)? horizontal_rule{0,2}"},
                          "paragraph": {"content": "inline*", "group": "block"},
                          "heading": {"content": "text*", "attrs": {"level": {"default": 1}}},
                          "horizontal_rule": {}, "text": {"group": "inline"},
                          "hard_break": {"inline": True, "group": "inline"}},
                "marks": {"em": _bm["em"]}}
    if name == "ws":
        n = dict(ln)
        n["verse"] = {"content": "text*", "group": "block", "whitespace": "pre"}     # keeps newlines, but is not `code`
        return {"nodes": n, "marks": _bm}
    if name == "at":
        n = dict(ln)
        n["fig"] = {"content": "inline*", "group": "block", "atom": True}      # an atom that is NOT a leaf (has content)
        return {"nodes": n, "marks": _bm}
    if name == "ni":
        # two non-inclusive marks adjacent in rank (link, comment) beside inclusive ones
        m = {"link": _bm["link"], "comment": {"inclusive": False, "excludes": ""}, "em": _bm["em"], "strong": _bm["strong"]}
        return {"nodes": ln, "marks": m}
    if name.startswith("mx"):
        return {"nodes": {"doc": {"content": "block+"},
                          "paragraph": {"content": "inline*", "group": "block"},
                          "plain": {"content": "inline*", "group": "block", "marks": "m1 m3"},
                          "nomark": {"content": "text*", "group": "block", "marks": ""},
                          "text": {"group": "inline"},
                          "img": {"inline": True, "group": "inline"}},
                "marks": MX[name]}
    raise KeyError(name)


MX = {
    # excludes: absent = itself only, "" = nothing, "_" = everything, names, groups
    "mx1": {"m0": {}, "m1": {"excludes": ""}, "m2": {"attrs": {"id": {"default": 0}}, "excludes": ""}, "m3": {}},
    "mx2": {"m0": {"excludes": "_"}, "m1": {}, "m2": {}, "m3": {"attrs": {"id": {"default": 0}}}},
    "mx3": {"m0": {}, "m1": {"group": "g"}, "m2": {"group": "g"}, "m3": {"excludes": "g"}},
    "mx4": {"m0": {"excludes": "m3"}, "m1": {"excludes": "m0"}, "m2": {}, "m3": {"excludes": "m0 m3"}},
    "mx5": {"m0": {"excludes": "m1"}, "m1": {"excludes": "m0"}, "m2": {"attrs": {"id": {}}, "excludes": ""}, "m3": {"excludes": "m1 m2"}},
    "mx6": {"m0": {}, "m1": {"inclusive": False}, "m2": {"excludes": "m0 m1"}, "m3": {"excludes": "_"}},
}

ALL = ["basic", "list", "strict", "title", "fixed", "docmarks", "iso", "table", "ni", "cx", "ws", "at", "mx1", "mx2", "mx3", "mx4", "mx5", "mx6"]

_cache = {}


def get(name):
    """Builds the schema with the real Schema(...) (cached per process)."""
    if name not in _cache:
        _cache[name] = Schema(spec_of(name))
    return _cache[name]


def fresh(name):
    return Schema(spec_of(name))
