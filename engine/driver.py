"""Check driver: runs a property's obligations on 16 cores, replays counterexamples on
plain CPython, applies the known-findings rules, writes the evidence file.

exit 0  property held on everything explored (inconclusive obligations are printed/counted)
exit 1  VIOLATION property=<id> replay=<path>   (replayed on plain CPython against /repo)
exit 3  harness error (counterexample that does not reproduce, vacuous obligation, crash)
"""
import argparse
import glob
import importlib
import json
import multiprocessing as mp
import os
import subprocess
import sys
import time

ROOT = os.path.dirname(os.path.dirname(os.path.abspath(__file__)))
sys.path.insert(0, ROOT)
import engine  # noqa: E402,F401  (puts the repository on sys.path)

from engine import worker  # noqa: E402


def harness_module(pid):
    hits = glob.glob(os.path.join(ROOT, "harness", pid.lower() + "_*.py"))
    if not hits:
        raise SystemExit("no harness for %s" % pid)
    return "harness." + os.path.basename(hits[0])[:-3]


def load_known(pid):
    path = os.path.join(ROOT, "known_findings.json")
    if not os.path.exists(path):
        return []
    return [f for f in json.load(open(path)).get("findings", []) if f.get("property") == pid]


def replay_file(path, witness=False):
    """Fresh plain-CPython process, no CrossHair involved."""
    cmd = [sys.executable, "-m", "engine.replay", path] + (["--witness"] if witness else [])
    p = subprocess.run(cmd, cwd=ROOT, capture_output=True, text=True, timeout=600)
    return p.returncode, (p.stdout + p.stderr)[-1500:]


def matches_known(f, res):
    if f.get("fn") and f["fn"] != res["fn"]:
        return False
    if f.get("P") is not None and any((res.get("P") or {}).get(k_) != v_ for k_, v_ in f["P"].items()):
        return False        # every key the entry names must agree (chunk bounds alo/ahi may be left out of an entry)
    if res.get("kind") == "direct":
        return f.get("ce") == res.get("ce")
    mod = importlib.import_module(res["module"])
    fn = getattr(mod, res["fn"])
    names = fn.__code__.co_varnames[:fn.__code__.co_argcount]
    try:
        return bool(eval(f.get("match", "False"), {}, dict(zip(names, res["ce"]["args"]))))
    except Exception:  # noqa: BLE001
        return False


def _child(task, conn):
    try:
        res = worker.run_obligation(task)
    except BaseException as e:  # noqa: BLE001
        res = {"name": task["ob"]["name"], "fn": task["ob"]["fn"], "P": task["ob"].get("P", {}), "module": task["module"],
               "kind": task["ob"].get("kind", "crosshair"), "status": "harness_error", "detail": repr(e)}
    try:
        conn.send(json.loads(json.dumps(res, default=repr)))
    finally:
        conn.close()


def run_parallel(ctx, tasks, jobs, deadline=None):
    """One forked process per obligation, at most `jobs` at a time.  A process that dies (z3 can
    abort on an internal assertion) or overruns its hard limit yields an *inconclusive* result;
    it is retried once."""
    results = [None] * len(tasks)
    queue = [(i, 0) for i in range(len(tasks))]
    running = {}

    def crashed(i, why):
        ob = tasks[i]["ob"]
        return {"name": ob["name"], "fn": ob["fn"], "P": ob.get("P", {}), "module": tasks[i]["module"],
                "kind": ob.get("kind", "crosshair"), "status": "inconclusive", "detail": why, "witness": "refuted (not run)"}

    while queue or running:
        if deadline is not None and queue and time.time() > deadline:
            # wall budget of the tier used up: what has not started is reported as not explored (inconclusive)
            for (i, _att) in queue:
                results[i] = crashed(i, "not started: the tier's wall budget (VERIF_BUDGET_S) was used up")
            queue = []
        while queue and len(running) < jobs:
            i, attempt = queue.pop(0)
            rd, wr = ctx.Pipe(duplex=False)
            pr = ctx.Process(target=_child, args=(tasks[i], wr), daemon=True)
            pr.start()
            wr.close()
            hard = 3.2 * float(tasks[i]["ob"].get("timeout", 60)) * float(os.environ.get("VERIF_TIMEOUT_SCALE", "1")) + 180
            running[i] = (pr, rd, time.time() + hard, attempt)
        time.sleep(0.05)
        for i in list(running):
            pr, rd, hard_dl, attempt = running[i]      # (not `deadline`: that is the tier's wall budget)
            if rd.poll():
                try:
                    results[i] = rd.recv()
                except EOFError:
                    results[i] = None
                pr.join(5)
                if results[i] is None:
                    if attempt == 0:
                        queue.append((i, 1))
                    else:
                        results[i] = crashed(i, "worker process died (exit code %r) twice" % pr.exitcode)
                del running[i]
            elif not pr.is_alive():
                pr.join(1)
                if attempt == 0:
                    queue.append((i, 1))
                else:
                    results[i] = crashed(i, "worker process died (exit code %r) twice" % pr.exitcode)
                del running[i]
            elif time.time() > hard_dl:
                pr.kill()
                pr.join(5)
                results[i] = crashed(i, "hard time limit exceeded; worker killed")
                del running[i]
    return results


def main(argv=None):
    ap = argparse.ArgumentParser()
    ap.add_argument("pid")
    ap.add_argument("--tier", default=os.environ.get("VERIF_TIER", "quick"))
    ap.add_argument("--replay")
    ap.add_argument("--only", default=None, help="substring filter on obligation names")
    ap.add_argument("-j", type=int, default=int(os.environ.get("VERIF_JOBS", "16")))
    ap.add_argument("--no-evidence", action="store_true")
    ap.add_argument("--list", action="store_true")
    a = ap.parse_args(argv)
    pid = a.pid.upper()
    tier = a.tier if a.tier in ("quick", "thorough") else "quick"
    seed = int(os.environ.get("VERIF_SEED", "0") or 0)

    if a.replay:
        rc, out = replay_file(os.path.abspath(a.replay))
        print(out)
        return rc

    t0 = time.time()
    modname = harness_module(pid)
    mod = importlib.import_module(modname)
    obs = mod.obligations(tier, seed)
    if a.only:
        obs = [o for o in obs if a.only in o["name"]]
    if a.list:
        for o in obs:
            print(o["name"], o["fn"], json.dumps(o.get("P", {}))[:100], o.get("timeout"))
        return 0
    known = load_known(pid)
    open_known = [f for f in known if f.get("status") == "open"]
    fixed_known = [f for f in known if f.get("status") == "fixed"]

    os.makedirs(os.path.join(ROOT, "replays"), exist_ok=True)
    os.makedirs(os.path.join(ROOT, "evidence"), exist_ok=True)
    violations, harness_errors, known_hits, inconclusive = [], [], [], []
    nrep = [0]

    def write_replay(rec):
        nrep[0] += 1
        path = os.path.join(ROOT, "replays", "%s-%d.json" % (pid, nrep[0]))
        json.dump(rec, open(path, "w"), indent=1, default=str)
        return path

    # ---- 1. concrete obligations: self-test inputs and regression inputs of fixed findings
    concrete = list(getattr(mod, "selftest", lambda: [])())
    for f in fixed_known:
        if f.get("fn") and f.get("args") is not None:
            concrete.append({"fn": f["fn"], "P": f.get("P", {}), "args": f["args"],
                             "name": "regression:" + f.get("what", "")[:60]})
        elif f.get("fn") and f.get("kind") == "direct" and f.get("ce") is not None:
            # counterexample of a direct (solver) obligation: replayed through the harness's replay_<fn>
            concrete.append({"fn": f["fn"], "P": f.get("P", {}), "args": None, "kind": "direct", "ce": f["ce"],
                             "name": "regression:" + f.get("what", "")[:60]})
    n_concrete = 0
    from engine import replay as replay_mod
    for c in concrete:
        rec = {"module": modname, "fn": c["fn"], "P": c.get("P", {}), "args": c["args"], "name": c.get("name", "selftest"),
               "open_tags": [f["tag"] for f in open_known if f.get("tag")]}
        if c.get("kind") == "direct":
            rec.update(kind="direct", ce=c["ce"])
        n_concrete += 1
        try:
            ok, ce = replay_mod.replay(rec)
        except Exception as e:  # noqa: BLE001
            ok, ce = False, {"exc": repr(e)}
        if not ok:
            if rec.get("kind") == "direct":
                res, ce = dict(rec), rec["ce"]
            else:
                rec["ce"] = ce
                res = dict(rec, kind="crosshair", ce={"args": rec["args"], **(ce or {})})
            hit = next((f for f in open_known if matches_known(f, res)), None)
            if hit:
                known_hits.append(hit)
                continue
            path = write_replay(rec)
            rc, out = replay_file(path)
            if rc == 1:
                violations.append((rec["name"], path, ce))
            else:
                harness_errors.append((rec["name"], "concrete input fails in-process but not in a fresh process: " + out[-300:]))

    # ---- 2. symbolic obligations -----------------------------------------------------------
    budget = float(os.environ.get("VERIF_BUDGET_S", "1500" if tier == "quick" else "3000"))
    deadline = t0 + budget
    results = []
    open_tags = [f["tag"] for f in open_known if f.get("tag")]
    tasks = [{"module": modname, "ob": o, "exclude": [], "open_tags": open_tags} for o in obs]
    ctx = mp.get_context("fork")
    # longest first
    order = sorted(range(len(tasks)), key=lambda i: -float(tasks[i]["ob"].get("timeout", 60)))
    pending = [tasks[i] for i in order]
    rounds = 0
    while pending and rounds < 9:
        rounds += 1
        out = run_parallel(ctx, pending, a.j, deadline)
        again = []
        for task, res in zip(pending, out):
            for tg in res.get("known_tags", []) or []:
                for f in open_known:
                    if f.get("tag") == tg and f not in known_hits:
                        known_hits.append(f)
            if res.get("status") == "refuted":
                rec = {"module": modname, "fn": res["fn"], "P": res["P"], "name": res["name"], "kind": res["kind"],
                       "args": res["ce"].get("args"), "ce": res["ce"], "open_tags": open_tags}
                path = write_replay(rec)
                rc, rout = replay_file(path)
                res["replay"] = {"path": path, "rc": rc}
                if rc == 1:
                    hit = next((f for f in open_known if matches_known(f, res)), None)
                    if hit:
                        if hit not in known_hits:
                            known_hits.append(hit)
                        if res["kind"] != "direct" and hit.get("match") and len(task["exclude"]) < 8:
                            again.append(dict(task, exclude=task["exclude"] + [hit["match"]]))
                            continue
                        res["status"] = "known_only"
                    else:
                        violations.append((res["name"], path, res["ce"]))
                elif rc == 0:
                    res["status"] = "harness_error"
                    harness_errors.append((res["name"], "counterexample %r does not reproduce on plain CPython" % (res["ce"],)))
                else:
                    res["status"] = "harness_error"
                    harness_errors.append((res["name"], "replay crashed: " + rout[-400:]))
            elif res.get("status") == "harness_error":
                harness_errors.append((res["name"], res.get("detail", "")))
            elif res.get("status") == "inconclusive":
                inconclusive.append((res["name"], res.get("detail", "")))
            if res.get("kind") != "direct" and res.get("status") in ("confirmed", "inconclusive") \
                    and not str(res.get("witness", "")).startswith("refuted"):
                if "CONFIRMED" not in str(res.get("witness")) or "CANNOT_CONFIRM" in str(res.get("witness")):
                    # the twin ran out of time before reaching the final assertion (loaded machine): not proven vacuous
                    if res.get("status") == "confirmed":
                        res["status"] = "inconclusive"
                    inconclusive.append((res["name"], "vacuity twin undecided (%s)" % res.get("witness")))
                elif task["ob"].get("allow_vacuous"):
                    # declared possibly-empty partition: not counted as discharged, not an error
                    if res.get("status") == "confirmed":
                        res["status"] = "inconclusive"
                        inconclusive.append((res["name"], "vacuous partition: no input reaches the final assertion (witness twin %s)" % res.get("witness")))
                else:
                    harness_errors.append((res["name"], "vacuous: witness twin %s" % res.get("witness")))
            results.append(res)
        pending = again

    # obligations that rest on a lemma are only as good as the lemma
    by_name = {r["name"]: r for r in results}
    for o in obs:
        req = o.get("requires")
        r = by_name.get(o["name"])
        if req and r and r.get("status") == "confirmed" and by_name.get(req, {}).get("status") != "confirmed":
            r["status"] = "inconclusive"
            inconclusive.append((r["name"], "rests on lemma %s which was not confirmed in this run" % req))

    # ---- 3. report -------------------------------------------------------------------------
    for f in known_hits:
        print("KNOWN-FINDING: property=%s %s" % (pid, f.get("what", "")))
    if not a.only:
        # listed findings this tier's obligations did not run into (e.g. thorough-only inputs): still listed, nothing suppressed
        for f in open_known:
            if f not in known_hits:
                print("KNOWN-FINDING: property=%s %s [listed; not reached by the %s tier in this run]" % (pid, f.get("what", ""), tier))
    for name, why in inconclusive:
        print("INCONCLUSIVE obligation=%s %s" % (name, why[:200]))
    for name, why in harness_errors:
        print("HARNESS-ERROR obligation=%s %s" % (name, why[:1500]))
    for name, path, ce in violations:
        print("VIOLATION property=%s replay=%s" % (pid, path))
        print("  obligation=%s counterexample=%s" % (name, json.dumps(ce, default=str)[:600]))

    conf = [r for r in results if r.get("status") == "confirmed"]
    if os.environ.get("VERIF_VERBOSE"):
        agg = {}
        for r in results:
            k = r["name"].split("/")[0]
            a_ = agg.setdefault(k, [0, 0, 0.0])
            a_[0] += 1
            a_[1] += r.get("paths") or 0
            a_[2] += r.get("wall_s") or 0.0
        for k, v in agg.items():
            print("  [group %s] obligations=%d paths=%d cpu=%.0fs" % (k, v[0], v[1], v[2]))
        for r in sorted(results, key=lambda r: -r.get("wall_s", 0)):
            print("  %-55s %-12s paths=%-6s reached=%-6s q=%-7s solver=%-7.1f wall=%.1f" % (
                r["name"], r.get("status"), r.get("paths"), r.get("reached"), r.get("queries"), r.get("solver_s", 0.0), r.get("wall_s", 0.0)))
    wall = time.time() - t0
    funcs = sorted({f for r in results for f in r.get("functions", [])})
    samples = []
    for r in results[:6]:
        samples.append({k: r.get(k) for k in ("name", "fn", "P", "status", "paths", "reached", "queries", "wall_s", "witness_args") if k in r})
    ev = {
        "property_id": pid, "tier": tier, "seed": seed, "level": "model_checking",
        "coverage": {
            "evaluations": int(sum(r.get("paths", 0) for r in results)) + n_concrete,
            "distinct_nontrivial": int(sum(r.get("reached", 0) for r in results)),
            "rule": "evaluations = symbolic execution paths explored by CrossHair (each path is one solver-decided "
                    "equivalence class of inputs) plus direct SMT queries plus concrete self-test/regression inputs; "
                    "non-trivial = paths that satisfied the harness preconditions and reached the final assertion "
                    "(counted by engine.rt.fin); paths are distinct by construction of the path tree",
            "obligations": len(results), "discharged": len(conf),
            "inconclusive": len(inconclusive), "refuted": len(violations), "known_findings_hit": len(known_hits),
            "witness_refuted": sum(1 for r in results if str(r.get("witness", "")).startswith("refuted")),
            "concrete_inputs": n_concrete,
            "queries": int(sum(r.get("queries", 0) for r in results)),
            "sat": int(sum(r.get("sat", 0) for r in results)), "unsat": int(sum(r.get("unsat", 0) for r in results)),
            "solver_unknown": int(sum(r.get("unknown", 0) for r in results)),
            "solver_s": round(sum(r.get("solver_s", 0.0) for r in results), 2),
            "cpu_s": round(sum(r.get("wall_s", 0.0) for r in results), 1),
            "functions_encoded": funcs,
            "programs": int(sum(r.get("programs", 0) or 0 for r in results)),
            "expressions_with_full_bound": int(sum(r.get("full_bound", 0) or 0 for r in results)),
            "max_unrolling_L": max([r.get("maxL", 0) or 0 for r in results] + [0]),
            "bounds": getattr(mod, "BOUNDS", ""),
            "samples": samples,
            "exhaustive": False,
            "explanation": getattr(mod, "__doc__", "") or "",
        },
        "assumptions": list(getattr(mod, "ASSUMPTIONS", [])) + [
            "CrossHair 0.0.110 proxies for int/bool/str/list and its path-tree bookkeeping; z3 5.1",
            "every counterexample is replayed on plain CPython before it is reported",
        ],
        "wall_s": round(wall, 2),
        "violations": len(violations),
    }
    if not a.no_evidence and not a.only:
        json.dump(ev, open(os.path.join(ROOT, "evidence", pid + ".json"), "w"), indent=1, default=str)
    print("%s tier=%s obligations=%d confirmed=%d inconclusive=%d violations=%d known=%d harness_errors=%d paths=%d reached=%d queries=%d wall=%.1fs" % (
        pid, tier, len(results), len(conf), len(inconclusive), len(violations), len(known_hits), len(harness_errors),
        ev["coverage"]["evaluations"], ev["coverage"]["distinct_nontrivial"], ev["coverage"]["queries"], wall))
    if violations:
        return 1
    if harness_errors:
        return 3
    return 0


if __name__ == "__main__":
    sys.exit(main())
