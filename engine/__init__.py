"""Verification engine.  The code under test is imported from /repo's working tree
(VERIF_REPO overrides the location; used only to replay regression inputs on old trees)."""
import os
import sys

REPO = os.environ.get("VERIF_REPO", "/repo")
if REPO not in sys.path:
    sys.path.insert(0, REPO)
