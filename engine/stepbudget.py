"""Deterministic step budget: termination as an ordinary assertion.

sys.monitoring tool id 3 (CrossHair uses 4) receives PY_START and JUMP events, enabled
*locally* on the code objects of the functions under test.  When the counter passes the
budget the callback raises StepBudgetExceeded into the monitored code - identically under
CrossHair and on plain CPython, so a hang is a replayable counterexample.

A second tool (id 1) records which functions of /repo/prosemirror were entered
(functions_encoded in the evidence); each location disables itself after the first hit.
"""
import sys

mon = sys.monitoring
BUDGET_TOOL = 3
COVER_TOOL = 1


class StepBudgetExceeded(Exception):
    pass


_state = {"count": 0, "limit": None, "installed": False, "codes": set()}
covered = set()


def _on_event(code, *_a):
    lim = _state["limit"]
    if lim is None:
        return None
    _state["count"] += 1
    if _state["count"] > lim:
        _state["limit"] = None
        raise StepBudgetExceeded("more than %d calls/back-edges" % lim)
    return None


def watch(*functions):
    """Enable budget events on these functions (idempotent)."""
    if not _state["installed"]:
        mon.use_tool_id(BUDGET_TOOL, "verif-stepbudget")
        mon.register_callback(BUDGET_TOOL, mon.events.PY_START, _on_event)
        mon.register_callback(BUDGET_TOOL, mon.events.JUMP, _on_event)
        _state["installed"] = True
    for f in functions:
        code = getattr(f, "__code__", None) or f
        if code not in _state["codes"]:
            mon.set_local_events(BUDGET_TOOL, code, mon.events.PY_START | mon.events.JUMP)
            _state["codes"].add(code)


class budget:
    """with budget(n): ...   raises StepBudgetExceeded after n events in watched code."""

    def __init__(self, n):
        self.n = n

    def __enter__(self):
        _state["count"] = 0
        _state["limit"] = self.n
        return self

    def __exit__(self, *exc):
        _state["limit"] = None
        return False


def _on_cover(code, _off):
    fn = code.co_filename
    if "/prosemirror/" in fn:
        covered.add(fn.split("/prosemirror/", 1)[1][:-3].replace("/", ".") + "." + code.co_qualname)
    return mon.DISABLE


def start_coverage():
    try:
        mon.use_tool_id(COVER_TOOL, "verif-cover")
    except ValueError:
        return
    mon.register_callback(COVER_TOOL, mon.events.PY_START, _on_cover)
    mon.set_events(COVER_TOOL, mon.events.PY_START)
