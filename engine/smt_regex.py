"""E2a/E2b - compiled content matchers against z3 regular expressions.

* extract(match): the compiled automaton of a ContentMatch, read through the public API only
  (edge_count, edge(i).type/next, valid_end); states are numbered in BFS order.
* to_z3(ast, letter): the content expression (engine.oracle.cexpr AST, an independent reading of the
  expression grammar) as a z3 regular expression over one character per node type.
* pref(ast): AST of the prefix closure (exact because every sub-expression has a non-empty language).
* equiv_query: one SMT problem "exists w, |w| <= L, on which regex and automaton disagree".
"""
import z3


def extract(start):
    states, index, order = [], {}, [start]
    index[id(start)] = 0
    i = 0
    while i < len(order):
        m = order[i]
        edges = []
        for k in range(m.edge_count):
            e = m.edge(k)
            if id(e.next) not in index:
                index[id(e.next)] = len(order)
                order.append(e.next)
            edges.append((e.type.name, index[id(e.next)]))
        states.append({"accept": bool(m.valid_end), "edges": edges})
        i += 1
    return states, order


def eps():
    return z3.Re(z3.StringVal(""))


def to_z3(e, letter):
    k = e[0]
    if k == "eps":
        return eps()
    if k == "name":
        rs = [z3.Re(z3.StringVal(letter[n])) for n in e[1]]
        return rs[0] if len(rs) == 1 else z3.Union(*rs)
    if k == "seq":
        rs = [to_z3(x, letter) for x in e[1]]
        return rs[0] if len(rs) == 1 else z3.Concat(*rs)
    if k == "alt":
        rs = [to_z3(x, letter) for x in e[1]]
        return rs[0] if len(rs) == 1 else z3.Union(*rs)
    if k == "star":
        return z3.Star(to_z3(e[1], letter))
    if k == "plus":
        return z3.Plus(to_z3(e[1], letter))
    if k == "opt":
        return z3.Option(to_z3(e[1], letter))
    if k == "range":
        r, lo, hi = to_z3(e[1], letter), e[2], e[3]
        if hi == -1:
            parts = [r] * lo + [z3.Star(r)]
            return parts[0] if len(parts) == 1 else z3.Concat(*parts)
        if hi == 0:
            return eps()
        if lo > hi:
            hi = lo                      # upstream: max below min behaves as exactly min
        return z3.Loop(r, lo, hi)
    raise ValueError(k)


def pref(e):
    """Prefix closure as an AST."""
    k = e[0]
    if k == "eps":
        return ("eps",)
    if k == "name":
        return ("opt", e)
    if k == "alt":
        return ("alt", [pref(x) for x in e[1]])
    if k == "seq":
        alts = []
        for i, x in enumerate(e[1]):
            alts.append(("seq", list(e[1][:i]) + [pref(x)]) if i else pref(x))
        return ("alt", alts)
    if k in ("star", "plus"):
        return ("seq", [("star", e[1]), pref(e[1])])
    if k == "opt":
        return pref(e[1])
    if k == "range":
        lo, hi = e[2], e[3]
        if hi == -1:
            return ("seq", [("star", e[1]), pref(e[1])])
        if hi < lo:
            hi = lo
        if hi == 0:
            return ("eps",)
        return ("seq", [("range", e[1], 0, hi - 1), pref(e[1])])
    raise ValueError(k)


def run_states(states, w, L, letter):
    """z3 Int term: state after reading w (|w| <= L) through the extracted table; dead = len(states)."""
    dead = len(states)
    cur = z3.IntVal(0)
    n = z3.Length(w)
    for i in range(L):
        ch = z3.SubString(w, i, 1)
        nxt = z3.IntVal(dead)
        for q, st in enumerate(states):
            for (tname, to) in st["edges"]:
                if tname in letter:
                    nxt = z3.If(z3.And(cur == q, ch == z3.StringVal(letter[tname])), z3.IntVal(to), nxt)
        cur = z3.If(i < n, nxt, cur)
    return cur


def accept_term(states, cur):
    acc = [cur == q for q, st in enumerate(states) if st["accept"]]
    return z3.Or(*acc) if acc else z3.BoolVal(False)


def alphabet_constraint(w, L, letters):
    cs = [z3.Length(w) <= L]
    anyc = z3.Union(*[z3.Re(z3.StringVal(c)) for c in letters]) if len(letters) > 1 else z3.Re(z3.StringVal(letters[0]))
    cs.append(z3.InRe(w, z3.Star(anyc)))
    return cs


def model_word(m, w, letter):
    s = m.eval(w, model_completion=True).as_string()
    inv = {v: k for k, v in letter.items()}
    return [inv[c] for c in s]
