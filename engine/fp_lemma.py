"""E2c - floating-point lemma for the recover encoding of prosemirror/transform/map.py.

make_recover / recover_index / recover_offset mix int and float arithmetic.  CrossHair models
floats as reals (slow and sometimes `unknown`), so the E1 obligations of C08 run with integer
models of the three functions.  This module is what licenses that: it translates the *current*
source of the three functions (read from /repo's AST on every run) into z3 bit-vector /
IEEE-754 terms and asks z3 for an input on which the translated function differs from the
integer model.  unsat = exact for every index < 2^16, offset < 2^36, value < 2^52.
If the source is outside the translatable fragment the lemma is *inconclusive* (never a pass).
"""
import ast
import time

import z3

import engine as _engine
MAP_PY = _engine.REPO + "/prosemirror/transform/map.py"
F64 = z3.Float64()
RNE = z3.RNE()
RTZ = z3.RTZ()


class Untranslatable(Exception):
    pass


def _const_eval(node, env):
    if isinstance(node, ast.Constant) and isinstance(node.value, (int, float)) and not isinstance(node.value, bool):
        return node.value
    if isinstance(node, ast.Name) and node.id in env:
        return env[node.id]
    if isinstance(node, ast.BinOp):
        a, b = _const_eval(node.left, env), _const_eval(node.right, env)
        ops = {ast.Add: lambda: a + b, ast.Sub: lambda: a - b, ast.Mult: lambda: a * b, ast.Pow: lambda: a ** b,
               ast.LShift: lambda: a << b, ast.BitAnd: lambda: a & b, ast.BitOr: lambda: a | b}
        for k, f in ops.items():
            if isinstance(node.op, k):
                return f()
    raise Untranslatable(ast.dump(node))


def load(path=MAP_PY):
    tree = ast.parse(open(path).read())
    consts, funcs = {}, {}
    for st in tree.body:
        if isinstance(st, ast.Assign) and len(st.targets) == 1 and isinstance(st.targets[0], ast.Name):
            try:
                consts[st.targets[0].id] = _const_eval(st.value, consts)
            except Untranslatable:
                pass
        elif isinstance(st, ast.FunctionDef) and st.name in ("make_recover", "recover_index", "recover_offset"):
            funcs[st.name] = st
    return consts, funcs


def to_f(v):
    return v[1] if v[0] == "float" else z3.fpSignedToFP(RNE, v[1], F64)


def tr(node, env, consts):
    """-> ("int", BitVec64) | ("float", FP64)"""
    if isinstance(node, ast.Constant):
        if isinstance(node.value, bool) or not isinstance(node.value, (int, float)):
            raise Untranslatable("constant")
        if isinstance(node.value, int):
            return ("int", z3.BitVecVal(node.value, 64))
        return ("float", z3.FPVal(node.value, F64))
    if isinstance(node, ast.Name):
        if node.id in env:
            return env[node.id]
        if node.id in consts:
            c = consts[node.id]
            return ("int", z3.BitVecVal(c, 64)) if isinstance(c, int) else ("float", z3.FPVal(c, F64))
        raise Untranslatable("name " + node.id)
    if isinstance(node, ast.Call) and isinstance(node.func, ast.Name) and node.func.id == "int" and len(node.args) == 1 and not node.keywords:
        v = tr(node.args[0], env, consts)
        if v[0] == "int":
            return v
        return ("int", z3.fpToSBV(RTZ, v[1], z3.BitVecSort(64)))
    if isinstance(node, ast.BinOp):
        a, b = tr(node.left, env, consts), tr(node.right, env, consts)
        op = node.op
        if isinstance(op, ast.Div):
            return ("float", z3.fpDiv(RNE, to_f(a), to_f(b)))
        if a[0] == "int" and b[0] == "int":
            if isinstance(op, ast.Add):
                return ("int", a[1] + b[1])
            if isinstance(op, ast.Sub):
                return ("int", a[1] - b[1])
            if isinstance(op, ast.Mult):
                return ("int", a[1] * b[1])
            if isinstance(op, ast.BitAnd):
                return ("int", a[1] & b[1])
            if isinstance(op, ast.BitOr):
                return ("int", a[1] | b[1])
            if isinstance(op, ast.FloorDiv):
                return ("int", z3.UDiv(a[1], b[1]))      # operands are non-negative in the lemma's domain
            if isinstance(op, ast.Mod):
                return ("int", z3.URem(a[1], b[1]))
            if isinstance(op, ast.RShift):
                return ("int", z3.LShR(a[1], b[1]))
            if isinstance(op, ast.LShift):
                return ("int", a[1] << b[1])
            raise Untranslatable("int op")
        fa, fb = to_f(a), to_f(b)
        if isinstance(op, ast.Add):
            return ("float", z3.fpAdd(RNE, fa, fb))
        if isinstance(op, ast.Sub):
            return ("float", z3.fpSub(RNE, fa, fb))
        if isinstance(op, ast.Mult):
            return ("float", z3.fpMul(RNE, fa, fb))
        raise Untranslatable("float op")
    raise Untranslatable(type(node).__name__)


def fn_term(fdef, args, consts):
    body = [s for s in fdef.body if not (isinstance(s, ast.Expr) and isinstance(s.value, ast.Constant))]
    if len(body) != 1 or not isinstance(body[0], ast.Return) or body[0].value is None:
        raise Untranslatable("body of %s is not a single return" % fdef.name)
    names = [a.arg for a in fdef.args.args]
    if len(names) != len(args):
        raise Untranslatable("arity of " + fdef.name)
    v = tr(body[0].value, dict(zip(names, args)), consts)
    if v[0] != "int":
        raise Untranslatable("%s does not return an int" % fdef.name)
    return v[1]


def run(timeout_ms=120000):
    """-> dict(status, queries, solver_s, ce?, detail, samples)"""
    t0 = time.time()
    out = {"queries": 0, "sat": 0, "unsat": 0, "unknown": 0, "samples": []}
    try:
        consts, funcs = load()
        for f in ("make_recover", "recover_index", "recover_offset"):
            if f not in funcs:
                raise Untranslatable("missing " + f)
        index = z3.BitVec("index", 64)
        offset = z3.BitVec("offset", 64)
        value = z3.BitVec("value", 64)
        dom_io = z3.And(z3.ULT(index, 1 << 16), z3.ULT(offset, 1 << 36))
        dom_v = z3.ULT(value, 1 << 52)
        queries = [
            ("make_recover(float(index), offset) == index + offset*2^16",
             fn_term(funcs["make_recover"], [("float", z3.fpSignedToFP(RNE, index, F64)), ("int", offset)], consts),
             index + offset * 65536, dom_io, ("make_recover", ["index", "offset"])),
            ("make_recover(index, offset) == index + offset*2^16 (int index)",
             fn_term(funcs["make_recover"], [("int", index), ("int", offset)], consts),
             index + offset * 65536, dom_io, ("make_recover_int", ["index", "offset"])),
            ("recover_index(value) == value mod 2^16",
             fn_term(funcs["recover_index"], [("int", value)], consts), z3.URem(value, 65536), dom_v,
             ("recover_index", ["value"])),
            ("recover_offset(value) == value div 2^16",
             fn_term(funcs["recover_offset"], [("int", value)], consts), z3.UDiv(value, 65536), dom_v,
             ("recover_offset", ["value"])),
        ]
    except Untranslatable as e:
        out.update(status="inconclusive", detail="source of map.py outside the translatable fragment: %s" % e)
        return out
    vars_ = {"index": index, "offset": offset, "value": value}
    for (text, term, model, dom, (fname, argn)) in queries:
        s = z3.Solver()
        s.set("timeout", timeout_ms)
        s.add(dom, term != model)
        t = time.time()
        r = str(s.check())
        out["queries"] += 1
        out[r if r in ("sat", "unsat") else "unknown"] += 1
        out["samples"].append({"lemma": text, "result": r, "s": round(time.time() - t, 2)})
        if r == "sat":
            m = s.model()
            ce = {"fn": fname, "args": [m.eval(vars_[a], model_completion=True).as_long() for a in argn]}
            out.update(status="refuted", ce=ce, detail=text)
            return out
        if r != "unsat":
            out.update(status="inconclusive", detail="solver answered %s for: %s" % (r, text))
            return out
    out["status"] = "confirmed"
    out["solver_s"] = round(time.time() - t0, 2)
    return out


def int_models():
    return {
        "make_recover": lambda index, offset: int(index) + offset * 65536,
        "recover_index": lambda value: value % 65536,
        "recover_offset": lambda value: value // 65536,
    }


def replay(ce):
    """True if the real functions agree with the integer model on the counterexample."""
    import importlib
    M = importlib.import_module("prosemirror.transform.map")
    a = ce["args"]
    if ce["fn"] == "make_recover":
        return M.make_recover(float(a[0]), a[1]) == a[0] + a[1] * 65536
    if ce["fn"] == "make_recover_int":
        return M.make_recover(a[0], a[1]) == a[0] + a[1] * 65536
    if ce["fn"] == "recover_index":
        return M.recover_index(a[0]) == a[0] % 65536
    if ce["fn"] == "recover_offset":
        return M.recover_offset(a[0]) == a[0] // 65536
    raise AssertionError(ce)
