"""Document/slice catalogue.  Templates are Python expressions over a tiny builder
vocabulary, evaluated against the schema named by the partition.

Builders (strings become text nodes; mark builders apply to every inline argument):
  doc p bq hr h1 h2 h3 pre img br ul ol li iso table row cell title body fa fb blk plain nomark pic
  em strong code a(href="x")(...)  m0 m1 m2 m3  m2i(n) (m2 with id=n)
"""
from engine import schemas

ASTRAL = "\U0001F600"


def _env(schema):
    nodes, marks = schema.nodes, schema.marks
    rank = {n: i for i, n in enumerate(marks)}

    def flat(kids):
        out = []
        for k in kids:
            if isinstance(k, str):
                if k:
                    out.append(schema.text(k))
            elif isinstance(k, (list, tuple)):
                out.extend(flat(k))
            else:
                out.append(k)
        return out

    def block(tname, **attrs):
        def f(*kids, **kw):
            a = dict(attrs)
            mk = kw.pop("marks", None)
            a.update(kw)
            return nodes[tname].create(a or None, flat(kids), mk)
        return f

    def markb(mname, **attrs):
        def f(*kids):
            m = marks[mname].create(attrs or None)
            out = []
            for k in flat(kids):
                ms = sorted(list(k.marks) + [m], key=lambda x: rank[x.type.name])
                out.append(k.mark(ms))
            return out
        return f

    e = {}
    alias = {"doc": "doc", "p": "paragraph", "bq": "blockquote", "hr": "horizontal_rule", "pre": "code_block",
             "br": "hard_break", "ul": "bullet_list", "ol": "ordered_list", "li": "list_item", "iso": "iso",
             "table": "table", "row": "row", "cell": "cell", "title": "title", "body": "body", "fa": "a", "fb": "b",
             "blk": "block", "plain": "plain", "nomark": "nomark", "pic": "img", "sec": "sec", "verse": "verse", "fig": "fig"}
    for k, t in alias.items():
        if t in nodes:
            e[k] = block(t)
    if "heading" in nodes:
        for lv in (1, 2, 3):
            e["h%d" % lv] = block("heading", level=lv)
    if "image" in nodes:
        e["img"] = block("image", src="i.png")
    for m in ("em", "strong", "code", "m0", "m1", "m2", "m3", "comment"):
        if m in marks:
            try:
                e[m] = markb(m)
            except ValueError:
                pass
    if "link" in marks:
        e["a"] = lambda href="foo", title=None: markb("link", href=href, title=title)
    if "m2" in marks:
        e["m2i"] = lambda n: markb("m2", id=n)
    if "m3" in marks:
        e["m3i"] = lambda n: markb("m3", id=n)
    e["U"] = ASTRAL
    return e


_envs = {}


def build(schema_name, expr):
    if schema_name not in _envs:
        _envs[schema_name] = _env(schemas.get(schema_name))
    return eval(expr, dict(_envs[schema_name]))  # noqa: S307 - catalogue strings only


LIST_DOCS = [
    'doc(p("ab"), p("c"))',
    'doc(p("a", em("b"), "c"), bq(p("d")))',
    'doc(p("x"), ul(li(p("a"), ul(li(p("c")))), li(p("b"))), p("y"))',
    'doc(ul(li(p("a")), li(p("b"))), p("c"))',
    'doc(h1("t"), pre("c\\nd"), p(img(), br(), "e"))',
    'doc(p(a()("l"), strong(em("m")), code("n")), hr(), p())',
    'doc(bq(p("a"), bq(p("b"))), ol(li(p("c"))))',
    'doc(p("a" + U + "b"), p(em(U)))',
    'doc(ol(li(p("a"), p("b")), li(p("c"))))',
    'doc(p(), p(""), h2(em("x"), "y"))',
    'doc(bq(ul(li(p("a")))), p("b", br(), "c"))',
    'doc(p(strong("a"), em(strong("b")), em("c")), p(a("u")("d"), a("v")("e")))',
    'doc(pre(U + "\\nx\\r\\ny"), p("a\\nb"))',
    'doc(pre("c"), p(em("d"), "e"), p("f"))',
    'doc(p(em("abc"), em(strong("defg")), "h"), p(em("ij")))',
    'doc(ul(li(p("a"), p("b"), p("c"), ul(li(p("d"))))))',
    'doc(ul(li(p("a"), bq(p("c")))))',
    'doc(ul(li(p("a"), ul(li(p("b")), li(p("c"))))))',     # 17: lifting the first inner item leaves li(ul(...)) behind
]
BASIC_DOCS = [
    'doc(p("ab"), bq(p("c")))',
    'doc(h1("a"), pre("b"), hr(), p(img(), "c"))',
    'doc(p(em("a"), "b" + U), p())',
]
STRICT_DOCS = [
    'doc(h1("Head"), body(p("Con")))',
    'doc(h2("a"), body(p("b"), bq(p("c"))))',
    'doc(h1(), body(ul(li(p("x"))), p()))',
]
TITLE_DOCS = [
    'doc(title("hi"), p("a"))',
    'doc(title())',
    'doc(p("a"), pre("b"))',
    'doc(title("t"), ul(li(p("a"))), p("b"))',
]
FIXED_DOCS = [
    'doc(blk(fa("aa"), fb("bb")))',
    'doc(blk(fa(), fb("b")), blk(fa("c"), fb()))',
]
DOCMARKS_DOCS = [
    'doc(p("hey", marks=em(p())[0].marks), p("ok"))',
    'doc(bq(p("a")), p(em("b")))',
    'doc(p("a", marks=a("foo")(p())[0].marks), p("b"))',
]
ISO_DOCS = [
    'doc(p("one"), iso(p("two")), p("x"))',
    'doc(iso(p("a"), p("b")), p("c"))',
    'doc(iso(iso(p("a")), p("b")))',
    'doc(bq(iso(p("a"))), iso(ul(li(p("b")))))',
    'doc(p("a"), iso(p()), iso(h1("t"), p("u")))',
]
TABLE_DOCS = [
    'doc(table(row(cell(p("a")), cell(p("b")))), p("c"))',
    'doc(p("x"), table(row(cell(p("a"), p("b"))), row(cell(p("c")))))',
    'doc(table(row(cell(table(row(cell(p("a"))))))))',
    'doc(table(row(cell(ul(li(p("a"))), p("b")))))',
]
MX_DOCS = [
    'doc(p("ab", pic(), "c"), plain("d"), nomark("e"))',
    'doc(p(m1("a"), m1(m3("b")), "c"), plain(m1("d"), pic()))',
]

NI_DOCS = [
    'doc(p(a()(comment("ab")), "c"), p(em(a()(comment("d")))))',
    'doc(p("x", a()(comment("y"))), p(comment("z"), a()("w")))',
]
CX_DOCS = [
    'doc(p("a"), p(em("b"), br()), sec(h1("h"), h2("i"), p("c"), hr()), sec())',
    'doc(h1("t"), sec(hr(), hr()))',
]
WS_DOCS = ['doc(p("a\\nb"), verse("c\\nd"), pre("e\\nf"))']
AT_DOCS = ['doc(fig("ab"), p("c"))', 'doc(p("a"), bq(fig("b", img())), fig())']
DOCS = {"at": AT_DOCS, "ws": WS_DOCS, "cx": CX_DOCS, "ni": NI_DOCS, "list": LIST_DOCS, "basic": BASIC_DOCS, "strict": STRICT_DOCS, "title": TITLE_DOCS, "fixed": FIXED_DOCS,
        "docmarks": DOCMARKS_DOCS, "iso": ISO_DOCS, "table": TABLE_DOCS}
_PAIR = {"mx1": ("m1", "m3"), "mx2": ("m1", "m2"), "mx3": ("m1", "m2"), "mx4": ("m1", "m2"), "mx5": ("m0", "m3"), "mx6": ("m0", "m1")}
for _n, (_x, _y) in _PAIR.items():
    DOCS[_n] = [MX_DOCS[0],
                'doc(p(%s("a"), %s(%s("b")), "c"), plain(m1("d"), pic()))' % (_x, _x, _y),
                'doc(p(%s("ab"), %s("c")), p(%s(pic())))' % (_x, _y, _x),
                'doc(p(m1("a")), plain(m1("b")), p(m1("c"), "d"))',
                'doc(p(m3("a")), plain(m3("b"), "e"), p(m3("c")))']
# mx2 (m0 excludes everything, nothing excludes m0 back): a leaf carrying two marks and one carrying a single mark
DOCS["mx2"] = DOCS["mx2"] + ['doc(p(m1(m2(pic())), m1(pic())))']
DOCS["mx1"] = DOCS["mx1"] + ['doc(p(m2i(1)(m2i(2)("ab")), m2i(1)("c"), "d"))']

# slices: (source template expression, from, to) - cut with the oracle-checked Node.slice
SLICES = {
    "list": [
        ('doc(p("xy"))', 1, 3),                       # closed inline
        ('doc(p("xy"))', 0, 4),                       # closed block
        ('doc(p("xy"), p("z"))', 2, 6),               # open both sides
        ('doc(p("xy"), p("z"))', 0, 5),               # open end
        ('doc(p("xy"), p("z"))', 3, 7),               # open start
        ('doc(ul(li(p("q")), li(p("r"))))', 3, 9),    # deep open both
        ('doc(ul(li(p("q"))))', 0, 7),                # closed list
        ('doc(bq(p("k")), h1("h"))', 2, 7),           # open start in bq, open end in heading
        ('doc(p(em("m"), img()))', 1, 3),             # marked text + leaf
        ('doc(pre("cc"))', 1, 3),                     # code text
        ('doc(p(), p())', 1, 3),                      # zero-size content? ("</p><p>")
        ('doc(hr(), p("a"))', 0, 1),                  # leaf block
        ('doc(h1("a" + U))', 1, 4),                   # astral
        ('doc(h2("XYZ"))', 2, 3, True),               # open on both sides inside ONE node whose markup differs
        ('doc(bq(h1("Q")))', 2, 3, True),             # the same, two levels deep
    ],
}
# late additions: appended by ops.payloads AFTER the empty slice so that payload indices recorded in known_findings.json stay put
SLICES_LATE = {
    "list": [('doc(ol(li(p("a"), pre("bcd"))))', 5, 6, True)],  # open through a list item whose required first child was cut off
}
# hand-built slices (expression, open_start, open_end); only the JSON harness (C05) appends them, after the late slices
SLICES_RAW = {
    "list": [('doc(p())', 1, 1),                       # <p()>(1,1): size 0 but not empty (Slice.max_open of an empty paragraph)
             ('doc(bq(p()))', 2, 2)],                  # <bq(p())>(2,2): the same, two levels
}
SLICES["basic"] = [s for s in SLICES["list"] if "ul(" not in s[0]]
SLICES["docmarks"] = SLICES["list"]
SLICES["ni"] = SLICES["list"]
SLICES["ws"] = SLICES["list"]
SLICES["at"] = SLICES["list"]
SLICES["cx"] = [('doc(p("xy"))', 1, 3), ('doc(p("xy"))', 0, 4), ('doc(h1("h"))', 0, 3), ('doc(p("a"), sec(hr()))', 3, 6),
                ('doc(p("a"), sec(h1("h"), p("c")))', 3, 10), ('doc(p("a"), p("b"))', 2, 5)]
SLICES["iso"] = SLICES["list"] + [('doc(iso(p("i")))', 0, 5), ('doc(iso(p("i")), p("j"))', 2, 7), ('doc(iso(p("i")))', 1, 4),
                                  ('doc(iso(p("ij")), iso(p()))', 3, 8)]       # open through an isolating node down into its text
SLICES["table"] = SLICES["list"] + [('doc(table(row(cell(p("i")), cell(p("j")))))', 3, 12),
                                    ('doc(table(row(cell(p("i")))))', 0, 9), ('doc(table(row(cell(p("i")))))', 2, 7),
                                    ('doc(table(row(cell(p("j"))), row(cell(p()))))', 4, 12)]   # rows open through a cell into text
SLICES["strict"] = [('doc(h1("Head"), body(p("Con")))', 7, 12), ('doc(h1("Head"), body(p("Con")))', 1, 5),
                    ('doc(h1("Head"), body(p("Con")))', 0, 13), ('doc(h1("Head"), body(p("Con")))', 3, 9),
                    ('doc(h1("H"), body(ul(li(p("x")))))', 5, 9)]
SLICES["title"] = [('doc(title("hi"), p("a"))', 1, 3), ('doc(title("hi"), p("a"))', 0, 7), ('doc(title("hi"), p("a"))', 2, 6),
                   ('doc(title("t"), pre("two"))', 1, 7), ('doc(ul(li(p("one")), li(p("two"))))', 2, 12)]
SLICES["fixed"] = [('doc(blk(fa("aa"), fb("bb")))', 3, 10), ('doc(blk(fa("aa"), fb("bb")))', 2, 4),
                   ('doc(blk(fa("aa"), fb("bb")))', 0, 10), ('doc(blk(fa("aa"), fb("bb")))', 4, 7),
                   ('doc(blk(fa("aa"), fb("bb")))', 6, 8, True)]    # open on both sides through a block that lacks its required first child


def docs(schema_name):
    return DOCS[schema_name]


def doc(schema_name, i):
    return build(schema_name, DOCS[schema_name][i])


def nslices(schema_name):
    return len(SLICES.get(schema_name, []))


def late_slices(schema_name):
    return [build(schema_name, e[0]).slice(e[1], e[2], bool(e[3]) if len(e) > 3 else False)
            for e in SLICES_LATE.get(schema_name, [])]


def raw_slices(schema_name):
    from prosemirror.model import Slice
    return [Slice(build(schema_name, e[0]).content, e[1], e[2]) for e in SLICES_RAW.get(schema_name, [])]


def slice_(schema_name, i):
    from prosemirror.model import Slice
    entry = SLICES[schema_name][i]
    src, a, b = entry[:3]
    return build(schema_name, src).slice(a, b, bool(entry[3]) if len(entry) > 3 else False)
