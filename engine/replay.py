"""Replay one recorded counterexample on plain CPython against the real /repo.

usage: python -m engine.replay <file.json>      exit 0: property held on this input
                                                exit 1: fails (reproduces)   exit 3: harness error
"""
import importlib
import json
import sys

import engine  # noqa: E402,F401  (puts the repository on sys.path)


def replay(rec, witness=False):
    from engine import rt
    mod = importlib.import_module(rec["module"])
    rt.OPEN_TAGS = set(rec.get("open_tags", []))
    if hasattr(mod, "configure"):
        mod.configure(rec.get("P", {}))
    if rec.get("kind") == "direct":
        return bool(getattr(mod, rec["fn"].replace("direct_", "replay_", 1))(rec.get("P", {}), rec["ce"])), None
    fn = getattr(mod, rec["fn"])
    rt.reset()
    rt.WITNESS = witness
    rt.EXCLUDES = []
    ok = fn(*rec["args"])
    rt.WITNESS = False
    return bool(ok), (rt.CE[-1] if rt.CE else None)


def main():
    rec = json.load(open(sys.argv[1]))
    witness = len(sys.argv) > 2 and sys.argv[2] == "--witness"
    try:
        ok, ce = replay(rec, witness)
    except Exception as e:  # noqa: BLE001
        import traceback
        traceback.print_exc()
        print("REPLAY harness error: %r" % (e,))
        sys.exit(3)
    if ok:
        print("REPLAY ok: property holds on this input")
        sys.exit(0)
    print("REPLAY fails: %s" % json.dumps(ce, default=str))
    sys.exit(1)


if __name__ == "__main__":
    main()
