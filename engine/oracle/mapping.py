"""Reference model of step maps, written from the ProseMirror reference documentation.

A step map is a list of ranges (start, old_size, new_size); start is in the coordinates of
the document *before* the step.  An inverted map swaps the roles of old and new, and its
range starts are shifted by the size changes of the ranges before it.

Rule: a position before every range that touches it is shifted by the size difference of the
ranges that end before it; a position inside a range (boundaries included, the first such
range decides) maps to the start of the replacement (association side < 0) or to its end;
at the start of a non-empty range the position stays before it, at its end it stays after.
"""


def triples(ranges):
    return [(ranges[i], ranges[i + 1], ranges[i + 2]) for i in range(0, len(ranges), 3)]


def norm(ranges, inverted):
    """[(start in source coordinates, old, new, start in target coordinates)]"""
    out = []
    diff = 0
    for (s, o, n) in triples(ranges):
        if inverted:
            out.append((s + diff, n, o, s))
        else:
            out.append((s, o, n, s + diff))
        diff += n - o
    return out


def ref_find(nr, pos):
    for k, (s, o, n, t) in enumerate(nr):
        if s <= pos <= s + o:
            return k
        if s > pos:
            return None
    return None


def ref_map(ranges, inverted, pos, assoc):
    nr = norm(ranges, inverted)
    k = ref_find(nr, pos)
    if k is None:
        shift = 0
        for (s, o, n, t) in nr:
            if s + o < pos:
                shift += n - o
        return pos + shift
    s, o, n, t = nr[k]
    if o == 0:
        side = assoc
    elif pos == s:
        side = -1
    elif pos == s + o:
        side = 1
    else:
        side = assoc
    return t + (0 if side < 0 else n)


def ref_compose(maps, pos, assoc):
    """maps: list of (ranges, inverted)"""
    for (r, inv) in maps:
        pos = ref_map(r, inv, pos, assoc)
    return pos


def ref_for_each(ranges, inverted):
    return [(s, s + o, t, t + n) for (s, o, n, t) in norm(ranges, inverted)]
