"""Token-level reference for positions (C09 and everything that needs 'where is pos').

Built only from the flat token list of a document's content.  Children of a node are the
items at nesting level 0 of its content span; a text child is a maximal run of "t" tokens
carrying the same mark set (documents in the catalogue are normalised: neighbouring text
nodes with equal marks do not occur, which the self-test checks)."""


class PosModel:
    def __init__(self, tok):
        self.tok = tok
        self.n = len(tok)
        self.match = {}
        st = []
        for i, t in enumerate(tok):
            if t[0] == "open":
                st.append(i)
            elif t[0] == "close":
                j = st.pop()
                self.match[j] = i
                self.match[i] = j
        assert not st

    def stack(self, p):
        """Indices of the open tokens of the nodes that contain position p (outermost first)."""
        st = []
        for i in range(p):
            t = self.tok[i]
            if t[0] == "open":
                st.append(i)
            elif t[0] == "close":
                st.pop()
        return st

    def depth(self, p):
        return len(self.stack(p))

    def span(self, st, d):
        """(start, end) of the content of the ancestor at depth d (0 = the document)."""
        if d == 0:
            return 0, self.n
        o = st[d - 1]
        return o + 1, self.match[o]

    def items(self, lo, hi):
        """Children of a node whose content is tok[lo:hi]: list of (start, end) token spans."""
        out = []
        i = lo
        while i < hi:
            t = self.tok[i]
            if t[0] == "open":
                j = self.match[i] + 1
            elif t[0] == "leaf":
                j = i + 1
            else:
                j = i + 1
                while j < hi and self.tok[j][0] == "t" and self.tok[j][2] == t[2]:
                    j += 1
            out.append((i, j))
            i = j
        return out

    def index_info(self, st, d, p, depth):
        """(index, index_after, text_offset) of position p within the ancestor at depth d."""
        lo, hi = self.span(st, d)
        its = self.items(lo, hi)
        target = p if d == depth else st[d]   # the child that contains p starts at st[d]
        idx = 0
        toff = 0
        for k, (a, b) in enumerate(its):
            if b <= target:
                idx = k + 1
                continue
            if a <= target:
                idx = k
                if d == depth and self.tok[a][0] == "t" and a < p:
                    toff = p - a
            break
        if d == depth:
            after = idx + (1 if toff else 0)
        else:
            after = idx + 1
        return idx, after, toff

    def marks_of_item(self, a):
        t = self.tok[a]
        return t[2] if t[0] == "t" else t[3]

    def is_inline_item(self, a, inline_types):
        t = self.tok[a]
        return t[0] == "t" or t[1] in inline_types

    def ref_marks_at(self, p, noninclusive):
        """Marks at p: inside a text node its marks; else those of the child before (else after),
        minus non-inclusive marks not also present on the other side."""
        st = self.stack(p)
        depth = len(st)
        lo, hi = self.span(st, depth)
        if lo == hi:
            return ()
        its = self.items(lo, hi)
        before = after = None
        for (a, b) in its:
            if a < p < b:
                return self.marks_of_item(a)      # strictly inside: only text runs can be
            if b == p:
                before = a
            if a == p:
                after = a
        main, other = (before, after) if before is not None else (after, before)
        marks = list(self.marks_of_item(main))
        om = self.marks_of_item(other) if other is not None else None
        out = []
        for m in marks:
            if m[0] in noninclusive and (om is None or m not in om):
                continue
            out.append(m)
        return tuple(out)

    def shared_depth(self, p, q):
        st = self.stack(p)
        for d in range(len(st), 0, -1):
            lo, hi = self.span(st, d)
            if lo <= q <= hi:
                return d
        return 0
