"""Independent reader of ProseMirror content expressions.

Written from the ProseMirror documentation of NodeSpec.content, not from
prosemirror/model/content.py.  Produces a small AST which two back ends consume:
`to_pyre` (Python `re`, used by the validity oracle) and engine.smt_regex (z3 regex).

AST:  ("name", (type, ...))      one child whose type is any of the listed names
      ("seq", [e...]) ("alt", [e...]) ("star", e) ("plus", e) ("opt", e)
      ("range", e, lo, hi)        hi == -1 means unbounded
      ("eps",)                    the empty expression (leaf node types)
"""
import re

_TOK = re.compile(r"\s*(\w+|\S)")


class CExprError(Exception):
    pass


def tokenize(s):
    out, i = [], 0
    s = s.rstrip()
    while i < len(s):
        m = _TOK.match(s, i)
        if not m:
            break
        out.append(m.group(1))
        i = m.end()
    return out


def groups_of(spec):
    g = spec.get("group")
    return g.split(" ") if g else []


def resolve(name, nodes):
    """nodes: ordered dict name -> spec.  A name is a node type or else a group."""
    if name in nodes:
        return (name,)
    found = tuple(n for n, sp in nodes.items() if name in groups_of(sp))
    if not found:
        raise CExprError("unknown name %r" % name)
    return found


def parse(s, nodes):
    toks = tokenize(s or "")
    if not toks:
        return ("eps",)
    pos = [0]

    def peek():
        return toks[pos[0]] if pos[0] < len(toks) else None

    def eat(t):
        if peek() == t:
            pos[0] += 1
            return True
        return False

    def num():
        t = peek()
        if t is None or not re.fullmatch(r"[0-9]+", t):          # ASCII digits only (str.isdigit accepts other scripts)
            raise CExprError("number expected")
        pos[0] += 1
        return int(t)

    def p_expr():
        alts = [p_seq()]
        while eat("|"):
            alts.append(p_seq())
        return alts[0] if len(alts) == 1 else ("alt", alts)

    def p_seq():
        items = [p_sub()]
        while peek() is not None and peek() not in (")", "|"):
            items.append(p_sub())
        return items[0] if len(items) == 1 else ("seq", items)

    def p_sub():
        e = p_atom()
        while True:
            if eat("+"):
                e = ("plus", e)
            elif eat("*"):
                e = ("star", e)
            elif eat("?"):
                e = ("opt", e)
            elif eat("{"):
                lo = num()
                hi = lo
                if eat(","):
                    hi = -1 if peek() == "}" else num()
                if not eat("}"):
                    raise CExprError("unclosed range")
                e = ("range", e, lo, hi)
            else:
                return e

    def p_atom():
        if eat("("):
            e = p_expr()
            if not eat(")"):
                raise CExprError("missing )")
            return e
        t = peek()
        if t is None or not re.match(r"\w+$", t):
            raise CExprError("unexpected token %r" % (t,))
        pos[0] += 1
        return ("name", resolve(t, nodes))

    e = p_expr()
    if peek() is not None:
        raise CExprError("trailing text")
    return e


def names_in(e):
    k = e[0]
    if k == "name":
        return set(e[1])
    if k in ("seq", "alt"):
        s = set()
        for x in e[1]:
            s |= names_in(x)
        return s
    if k in ("star", "plus", "opt", "range"):
        return names_in(e[1])
    return set()


def first_name(e):
    """Leftmost name of the expression (decides inline vs block content)."""
    k = e[0]
    if k == "name":
        return e[1][0]
    if k in ("seq", "alt"):
        for x in e[1]:
            n = first_name(x)
            if n is not None:
                return n
        return None
    if k in ("star", "plus", "opt", "range"):
        return first_name(e[1])
    return None


def is_inline_type(name, nodes):
    return name == "text" or bool(nodes[name].get("inline"))


def to_pyre(e, letter):
    """Python regex source; letter: type name -> one (escaped) character."""
    k = e[0]
    if k == "eps":
        return ""
    if k == "name":
        return "[" + "".join(letter[n] for n in e[1]) + "]"
    if k == "seq":
        return "".join("(?:%s)" % to_pyre(x, letter) for x in e[1])
    if k == "alt":
        return "(?:" + "|".join(to_pyre(x, letter) for x in e[1]) + ")"
    if k == "star":
        return "(?:%s)*" % to_pyre(e[1], letter)
    if k == "plus":
        return "(?:%s)+" % to_pyre(e[1], letter)
    if k == "opt":
        return "(?:%s)?" % to_pyre(e[1], letter)
    if k == "range":
        lo, hi = e[2], e[3]
        return "(?:%s){%d,%s}" % (to_pyre(e[1], letter), lo, "" if hi == -1 else hi)
    raise CExprError(k)


def nullable(e):
    k = e[0]
    if k == "eps":
        return True
    if k == "name":
        return False
    if k == "seq":
        return all(nullable(x) for x in e[1])
    if k == "alt":
        return any(nullable(x) for x in e[1])
    if k in ("star", "opt"):
        return True
    if k == "plus":
        return nullable(e[1])
    if k == "range":
        return e[2] == 0 or nullable(e[1])
    raise CExprError(k)
