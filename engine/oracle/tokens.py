"""Flat-token picture of a document (the reference model for positions).

A document's content is a list of tokens; a position is an index into that list.
  ("open", type, attrs, marks)   ("close",)   ("leaf", type, attrs, marks)
  ("t", utf16_unit, marks)       one per UTF-16 code unit of text
Only node *fields* are read (type.name, attrs, marks, content.content, text, type.spec);
no method of the library is called.
"""


def freeze(v):
    if isinstance(v, dict):
        return ("D",) + tuple(sorted((k, freeze(x)) for k, x in v.items()))
    if isinstance(v, (list, tuple)):
        return ("L",) + tuple(freeze(x) for x in v)
    return v


def fmarks(marks):
    return tuple((m.type.name, freeze(m.attrs)) for m in marks)


def u16(s):
    out = []
    for ch in s:
        o = ord(ch)
        if o >= 0x10000:
            o -= 0x10000
            out.append(0xD800 + (o >> 10))
            out.append(0xDC00 + (o & 0x3FF))
        else:
            out.append(o)
    return out


def from_u16(units):
    """Inverse of u16 (lone surrogates are kept as lone code points)."""
    out, i = [], 0
    while i < len(units):
        u = units[i]
        if 0xD800 <= u < 0xDC00 and i + 1 < len(units) and 0xDC00 <= units[i + 1] < 0xE000:
            out.append(chr(0x10000 + ((u - 0xD800) << 10) + (units[i + 1] - 0xDC00)))
            i += 2
        else:
            out.append(chr(u))
            i += 1
    return "".join(out)


def spec_is_leaf(spec):
    return not (spec.get("content") or "").strip()


def node_tokens(n, out):
    name = n.type.name
    if name == "text":
        mk = fmarks(n.marks)
        for u in u16(n.text):
            out.append(("t", u, mk))
    elif spec_is_leaf(n.type.spec):
        out.append(("leaf", name, freeze(n.attrs), fmarks(n.marks)))
    else:
        out.append(("open", name, freeze(n.attrs), fmarks(n.marks)))
        for c in n.content.content:
            node_tokens(c, out)
        out.append(("close",))


def frag_tokens(frag):
    out = []
    for c in frag.content:
        node_tokens(c, out)
    return out


def doc_tokens(doc):
    """Tokens of the document's content (position 0 is just inside the top node)."""
    return frag_tokens(doc.content)


def slice_tokens(sl):
    t = frag_tokens(sl.content)
    return t[sl.open_start: len(t) - sl.open_end]


def typed(tokens, outer=()):
    """Label every close token with the markup of its matching open.  `outer` is the stack
    of enclosing markups for unmatched closes (innermost last)."""
    st = list(outer)
    out = []
    for t in tokens:
        if t[0] == "open":
            st.append(t[1:])
            out.append(t)
        elif t[0] == "close":
            m = st.pop() if st else None
            out.append(("close", m))
        else:
            out.append(t)
    return out


def unmatched(tokens):
    """(number of unmatched closes, number of unmatched opens) of a token range."""
    depth = 0
    closes = 0
    for t in tokens:
        if t[0] == "open":
            depth += 1
        elif t[0] == "close":
            if depth == 0:
                closes += 1
            else:
                depth -= 1
    return closes, depth


def depth_at(tokens, pos):
    """Number of nodes open at position pos (text excluded)."""
    d = 0
    for t in tokens[:pos]:
        if t[0] == "open":
            d += 1
        elif t[0] == "close":
            d -= 1
    return d


def well_formed(tokens):
    d = 0
    for t in tokens:
        if t[0] == "open":
            d += 1
        elif t[0] == "close":
            d -= 1
            if d < 0:
                return False
    return d == 0


def leaves(tokens):
    """The sequence of text units and leaf nodes (content-preservation laws)."""
    return [t for t in tokens if t[0] in ("t", "leaf")]


def leaves_nomarks(tokens):
    return [(t[0], t[1]) + ((t[2],) if t[0] == "leaf" else ()) for t in tokens if t[0] in ("t", "leaf")]


def splits_surrogate(tokens, pos):
    """True if pos lies between the two units of a surrogate pair."""
    if pos <= 0 or pos >= len(tokens):
        return False
    a, b = tokens[pos - 1], tokens[pos]
    return (a[0] == "t" and b[0] == "t" and 0xD800 <= a[1] < 0xDC00 and 0xDC00 <= b[1] < 0xE000)


def no_adjacent_mergeable_text(node):
    """No two neighbouring text children with identical mark sets anywhere below node."""
    prev = None
    for c in node.content.content:
        if c.type.name == "text":
            mk = fmarks(c.marks)
            if prev is not None and prev == mk:
                return False
            prev = mk
        else:
            prev = None
            if not no_adjacent_mergeable_text(c):
                return False
    return True


class TNode:
    """Tree rebuilt from tokens by bracket matching."""
    __slots__ = ("kind", "type", "attrs", "marks", "children", "unit")

    def __init__(self, kind, type=None, attrs=None, marks=(), children=None, unit=None):
        self.kind, self.type, self.attrs, self.marks = kind, type, attrs, marks
        self.children, self.unit = children if children is not None else [], unit


def tree(tokens, top_type="doc", top_attrs=None):
    root = TNode("node", top_type, top_attrs, ())
    st = [root]
    for t in tokens:
        if t[0] == "open":
            n = TNode("node", t[1], t[2], t[3])
            st[-1].children.append(n)
            st.append(n)
        elif t[0] == "close":
            if len(st) == 1:
                return None
            st.pop()
        elif t[0] == "leaf":
            st[-1].children.append(TNode("leaf", t[1], t[2], t[3]))
        else:
            st[-1].children.append(TNode("t", "text", None, t[2], unit=t[1]))
    return root if len(st) == 1 else None
