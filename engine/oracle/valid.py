"""Schema validity decided from the *spec dictionaries* alone.

valid_node(node, V) walks a real Node reading only fields; V = SpecView(schema.spec).
valid_tnode does the same for a token-rebuilt tree (engine.oracle.tokens.tree).
"""
import re

from . import cexpr
from .tokens import freeze, spec_is_leaf


class SpecView:
    def __init__(self, spec):
        self.nodes = dict(spec["nodes"])
        self.marks = dict(spec.get("marks") or {})
        self.top = spec.get("topNode") or "doc"
        self.mark_rank = {n: i for i, n in enumerate(self.marks)}
        self.letter = {n: chr(0x100 + i) for i, n in enumerate(self.nodes)}
        self._re = {}
        self._ast = {}
        self._allowed = {}
        self._excl = {}
        self._cok = {}
        self._first = {}
        self._canon = {}

    # -- content -----------------------------------------------------------------
    def ast(self, tname):
        if tname not in self._ast:
            self._ast[tname] = cexpr.parse(self.nodes[tname].get("content") or "", self.nodes)
        return self._ast[tname]

    def content_re(self, tname):
        if tname not in self._re:
            self._re[tname] = re.compile(cexpr.to_pyre(self.ast(tname), self.letter))
        return self._re[tname]

    def word(self, type_names):
        return "".join(self.letter[t] for t in type_names)

    def content_ok(self, tname, child_types):
        key = (tname, tuple(child_types))
        r = self._cok.get(key)
        if r is None:
            r = self._content_ok(tname, child_types)
            self._cok[key] = r
        return r

    def _content_ok(self, tname, child_types):
        for t in child_types:
            if t not in self.letter:
                return False
        return self.content_re(tname).fullmatch(self.word(child_types)) is not None

    def first_types(self, tname):
        """Types that can be the first child (from the content expression alone)."""
        if tname not in self._first:
            from . import cexpr as cx

            def pref(e):
                k = e[0]
                if k == "eps":
                    return ("eps",)
                if k == "name":
                    return ("opt", e)
                if k == "alt":
                    return ("alt", [pref(x) for x in e[1]])
                if k == "seq":
                    return ("alt", [("seq", list(e[1][:i]) + [pref(x)]) if i else pref(x) for i, x in enumerate(e[1])])
                if k in ("star", "plus"):
                    return ("seq", [("star", e[1]), pref(e[1])])
                if k == "opt":
                    return pref(e[1])
                lo, hi = e[2], e[3]
                if hi == -1:
                    return ("seq", [("star", e[1]), pref(e[1])])
                hi = max(hi, lo)
                return ("eps",) if hi == 0 else ("seq", [("range", e[1], 0, hi - 1), pref(e[1])])
            rx = re.compile(cx.to_pyre(pref(self.ast(tname)), self.letter))
            self._first[tname] = {u for u in self.nodes if rx.fullmatch(self.letter[u])}
        return self._first[tname]

    def compatible(self, a, b):
        return a == b or bool(self.first_types(a) & self.first_types(b))

    def is_leaf(self, tname):
        return spec_is_leaf(self.nodes[tname])

    def is_inline(self, tname):
        return cexpr.is_inline_type(tname, self.nodes)

    def inline_content(self, tname):
        f = cexpr.first_name(self.ast(tname))
        return f is not None and self.is_inline(f)

    def is_textblock(self, tname):
        return (not self.is_inline(tname)) and self.inline_content(tname)

    # -- marks -------------------------------------------------------------------
    def mark_groups(self, mname):
        g = self.marks[mname].get("group")
        return g.split(" ") if g else []

    def gather(self, names):
        out = []
        for nm in names:
            if nm in self.marks:
                out.append(nm)
            else:
                for m in self.marks:
                    if nm == "_" or nm in self.mark_groups(m):
                        out.append(m)
        return out

    def allowed_mark_types(self, tname):
        """None = every mark type allowed; otherwise the set of allowed names."""
        if tname not in self._allowed:
            me = self.nodes[tname].get("marks")
            if me == "_":
                r = None
            elif me:
                r = set(self.gather(me.split(" ")))
            elif me == "" or not self.inline_content(tname):
                r = set()
            else:
                r = None
            self._allowed[tname] = r
        return self._allowed[tname]

    def allows(self, tname, mname):
        a = self.allowed_mark_types(tname)
        return a is None or mname in a

    def excluded_by(self, mname):
        if mname not in self._excl:
            ex = self.marks[mname].get("excludes")
            if ex is None:
                r = {mname}
            elif ex == "":
                r = set()
            else:
                r = set(self.gather(ex.split(" ")))
            self._excl[mname] = r
        return self._excl[mname]

    def excludes(self, a, b):
        return b in self.excluded_by(a)

    def canonical(self, fm):
        """fm: tuple of (mark type name, frozen attrs)."""
        if not fm:
            return True
        try:
            r = self._canon.get(fm)
        except TypeError:
            return self._canonical(fm)
        if r is None:
            r = self._canonical(fm)
            self._canon[fm] = r
        return r

    def _canonical(self, fm):
        for i, (n, _a) in enumerate(fm):
            if n not in self.marks:
                return False
            if i and self.mark_rank[fm[i - 1][0]] > self.mark_rank[n]:
                return False
        for i in range(len(fm)):
            for j in range(len(fm)):
                if i != j:
                    if fm[i] == fm[j]:
                        return False
                    if self.excludes(fm[i][0], fm[j][0]):
                        return False
        return True

    def attrs_ok(self, tname, attrs):
        decl = self.nodes[tname].get("attrs") or {}
        if attrs is None:
            return not decl
        keys = set(attrs.keys()) if isinstance(attrs, dict) else {k for k, _ in attrs[1:]}
        return keys == set(decl.keys())


def _fm(marks):
    return tuple((m.type.name, freeze(m.attrs)) for m in marks)


def why_invalid(node, V, path="doc"):
    """None if the real Node is valid under V, else a short reason string."""
    tn = node.type.name
    if tn not in V.nodes:
        return "%s: unknown type %s" % (path, tn)
    fm = _fm(node.marks)
    if not V.canonical(fm):
        return "%s: non-canonical marks %r" % (path, fm)
    if tn == "text":
        if not isinstance(getattr(node, "text", None), str) or node.text == "":
            return "%s: empty text" % path
        return None
    if not V.attrs_ok(tn, node.attrs):
        return "%s: attrs %r do not match declaration" % (path, node.attrs)
    kids = node.content.content
    if not V.content_ok(tn, [c.type.name for c in kids]):
        return "%s: content %r does not match %r" % (path, [c.type.name for c in kids], V.nodes[tn].get("content"))
    for i, c in enumerate(kids):
        for m in c.marks:
            if not V.allows(tn, m.type.name):
                return "%s/%d: mark %s not allowed in %s" % (path, i, m.type.name, tn)
        r = why_invalid(c, V, "%s/%d:%s" % (path, i, c.type.name))
        if r:
            return r
    return None


def valid_node(node, V):
    return why_invalid(node, V) is None


def valid_children(V, parent_type, kids):
    """kids: list of real nodes proposed as the full child list of a parent_type node:
    content expression matches and parent allows each child's marks (one level only)."""
    if not V.content_ok(parent_type, [c.type.name for c in kids]):
        return False
    for c in kids:
        for m in c.marks:
            if not V.allows(parent_type, m.type.name):
                return False
    return True
