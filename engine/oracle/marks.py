"""Reference mark-set algebra (ProseMirror reference documentation of Mark.addToSet etc.).

A mark is modelled as (rank, key) where key identifies (type, attrs); `excl(a, b)` says whether
the type of a excludes the type of b.  Sets are Python lists in rank order."""


def ref_canonical(ms, rank, same, excl):
    for i in range(len(ms)):
        if i and rank(ms[i - 1]) > rank(ms[i]):
            return False
        for j in range(len(ms)):
            if i != j and (same(ms[i], ms[j]) or excl(ms[i], ms[j])):
                return False
    return True


def ref_add(ms, new, rank, same, excl):
    """Go through the set in order: an equal mark -> unchanged; a mark the new one excludes is
    dropped; a mark that excludes the new one (and is not itself excluded by it) -> unchanged;
    the new mark goes before the first kept mark of higher rank, else at the end."""
    for o in ms:
        if same(new, o):
            return list(ms)
    out = []
    placed = False
    for o in ms:
        if excl(new, o):
            continue
        if excl(o, new):
            return list(ms)
        if not placed and rank(o) > rank(new):
            out.append(new)
            placed = True
        out.append(o)
    if not placed:
        out.append(new)
    return out


def ref_remove(ms, m, same):
    return [o for o in ms if not same(o, m)]
