"""Position (Glushkov) automaton of a content-expression AST and its determinisation.
Only used to choose the unrolling bound L = n_M + n_R of the automaton-equivalence queries
(two complete DFAs with n_M and n_R states that agree on all words up to n_M + n_R agree on all)."""


def expand(e):
    """Rewrite ranges into seq/opt/star so that every leaf is one position."""
    k = e[0]
    if k in ("eps", "name"):
        return e
    if k in ("seq", "alt"):
        return (k, [expand(x) for x in e[1]])
    if k in ("star", "plus", "opt"):
        return (k, expand(e[1]))
    if k == "range":
        x, lo, hi = expand(e[1]), e[2], e[3]
        if hi != -1 and hi < lo:
            hi = lo
        parts = [x] * lo
        if hi == -1:
            parts.append(("star", x))
        else:
            parts += [("opt", x)] * (hi - lo)
        if not parts:
            return ("eps",)
        return parts[0] if len(parts) == 1 else ("seq", parts)
    raise ValueError(k)


def glushkov(e):
    """-> (nullable, first set, last set, follow dict, position labels)"""
    labels = []
    follow = {}

    def go(x):
        k = x[0]
        if k == "eps":
            return True, set(), set()
        if k == "name":
            p = len(labels)
            labels.append(set(x[1]))
            follow[p] = set()
            return False, {p}, {p}
        if k == "alt":
            n, f, l = False, set(), set()
            for y in x[1]:
                a, b, c = go(y)
                n, f, l = n or a, f | b, l | c
            return n, f, l
        if k == "seq":
            n, f, l = True, set(), set()
            for y in x[1]:
                a, b, c = go(y)
                for p in l:
                    follow[p] |= b
                if n:
                    f = f | b
                l = (l | c) if a else c
                n = n and a
            return n, f, l
        if k in ("star", "plus"):
            a, b, c = go(x[1])
            for p in c:
                follow[p] |= b
            return (True if k == "star" else a), b, c
        if k == "opt":
            a, b, c = go(x[1])
            return True, b, c
        raise ValueError(k)

    n, f, l = go(expand(e))
    return n, f, l, follow, labels


def dfa_size(e):
    """Number of states of the determinised position automaton, plus one dead state."""
    n, first, last, follow, labels = glushkov(e)
    start = frozenset(["S"])
    seen = {start}
    work = [start]
    while work:
        s = work.pop()
        nxt = {}
        for p in s:
            succ = first if p == "S" else follow[p]
            for q in succ:
                for name in labels[q]:
                    nxt.setdefault(name, set()).add(q)
        for name, qs in nxt.items():
            fs = frozenset(qs)
            if fs not in seen:
                seen.add(fs)
                work.append(fs)
    return len(seen) + 1
